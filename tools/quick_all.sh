#!/bin/sh
# runs every quick check once against /repo (evidence/*.json is rewritten); one line per property
cd "$(dirname "$0")/.."
for p in ${*:-C01 C02 C03 C04 C05 C06 C07 C08 C09 C10 C11 C12 C13 C14 C15 C16 C17 C18 C19 C20}; do
  s=$(date +%s)
  ./vp-check $p quick > /tmp/quick-$p.log 2>&1; rc=$?
  e=$(date +%s)
  echo "QUICK $p rc=$rc wall=$((e-s))s $(grep '^SUMMARY' /tmp/quick-$p.log)"
  grep '^INCONCLUSIVE\|^VIOLATION\|^HARNESS' /tmp/quick-$p.log | head -6
done
