#!/bin/sh
# runs every thorough check once, sequentially (each uses all cores); prints one line per property
cd "$(dirname "$0")/.."
for p in ${*:-C01 C02 C03 C04 C05 C06 C08 C09 C10 C11 C12 C13 C14 C15 C16 C17 C18 C19 C20 C07}; do
  s=$(date +%s)
  ./vp-check $p thorough > /tmp/thorough-$p.log 2>&1; rc=$?
  e=$(date +%s)
  echo "THOROUGH $p rc=$rc wall=$((e-s))s $(grep '^SUMMARY' /tmp/thorough-$p.log)"
  grep '^INCONCLUSIVE\|^VIOLATION\|^HARNESS' /tmp/thorough-$p.log | head -8
done
