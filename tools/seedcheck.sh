#!/bin/sh
# usage: tools/seedcheck.sh <seed-name> <out-dir with patch.diff + demo.py> <PROPERTY> [VERIF_ONLY filter]
# Confirms an independently written breaking change (tests still pass, demo fails with / passes without), then runs the
# quick check of PROPERTY against a scratch worktree carrying the change.
name="$1"; out="$2"; prop="$3"; only="$4"
wt="$(mktemp -d /tmp/verif-seedchk-XXXXXX)"; rmdir "$wt"
git -C /repo worktree add -q "$wt" HEAD || exit 3
trap 'git -C /repo worktree remove --force "$wt" >/dev/null 2>&1' EXIT
git -C "$wt" apply "$out/patch.diff" || { echo "RESULT $name: patch does not apply"; exit 3; }
( cd "$wt" && PYTHONPATH="$wt" /venv/bin/python -m pytest -q -p no:cacheprovider --timeout=900 --continue-on-collection-errors 2>&1 | tail -1 ) > /tmp/seedchk-$name.tests
tests="$(cat /tmp/seedchk-$name.tests)"
REPO="$wt" PYTHONPATH="$wt" /venv/bin/python "$out/demo.py" >/tmp/seedchk-$name.demo1 2>&1; d1=$?
REPO=/repo PYTHONPATH=/repo /venv/bin/python "$out/demo.py" >/tmp/seedchk-$name.demo0 2>&1; d0=$?
cd /verif
VERIF_ONLY="$only" VERIF_REPO="$wt" ./vp-check "$prop" quick > /tmp/seedchk-$name.check 2>&1; rc=$?
echo "RESULT $name: tests=[$tests] demo_with_change=$d1 demo_without=$d0 check_$prop=$rc"
grep -m3 "^VIOLATION\|^  condition\|^  obligation" /tmp/seedchk-$name.check
grep "^SUMMARY" /tmp/seedchk-$name.check
