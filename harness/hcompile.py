"""Compile-orchestration harness: the REAL MibCompiler.compile driven by scripted
components whose every call outcome is a symbolic scalar.

Serves C07, C08, C09, C10 (orchestration half) and C19 (orchestration half).

Universe: modules M0..M2 (names 'A','B','C'); the tree of module i is the int i.
Symbolic scalars (all int/bool), i = module index, j = module index:
  req_i      bool  module i is named in the compile() call (req_0 is implied if none)
  imp_i_j    bool  module i IMPORTS from module j (self loops and cycles allowed)
  s1_i,s2_i  int   answer of source 1 / 2 for module i: 0 not-found, 1 ok, 2 reader error
  par_i      int   parser on the file of module i: 0 ok (one module), 1 package parser error,
                   2 empty list, 3 file holds module i and then module (i+1)%M, 4 file holds module (i+1)%M and then module i
  alias_0    bool  module 0 is requested under another spelling of its name ('a' instead of 'A'): the reader reports the
                   requested name, the module text declares the canonical one
  sym_i      bool  symbol-table builder fails (package semantic error) on module i
  gen_i      bool  code generator fails (package codegen error) on module i
  sr1_i,sr2_i int  searcher 1/2 for module i: 0 not-found, 1 not-modified, 2 searcher error, 3 returns
  bo1_i,bo2_i int  borrower 1/2 for module i: 0 package error (nothing to borrow), 1 delivers
  wr_i       bool  writer fails (package writer error) on module i
  options    noDeps rebuild dryRun genTexts ignoreErrors writeMibs (bool)
  M, nsrc, nsr, nbo  sizes (1..3, 1..2, 0..2, 0..2)
"""
import sys

from pysmi import compiler as _compiler
from pysmi.compiler import MibCompiler
from pysmi.mibinfo import MibInfo
from pysmi import error

MODS = ['A', 'B', 'C']
STATUSES = ('compiled', 'untouched', 'failed', 'unprocessed', 'missing', 'borrowed')


class Src(object):
    def __init__(self, k, outcome, log):
        self.k = k
        self.outcome = outcome
        self.log = log

    def getData(self, name, **kw):
        i = MODS.index(name.upper())
        o = self.outcome[i]
        # termination: with M modules and S sources a terminating work list asks at most a few times per (module, source);
        # far beyond that the work list is not draining (reported as a violation instead of letting the path hang)
        if len(self.log) > 150:
            raise RuntimeError('compile() does not terminate: work list is not draining')
        if o == 1:
            self.log.append(('get', self.k, i, 'ok'))
            # (one path for everything a source serves - as CallbackReader does; nothing may key on it)
            return MibInfo(name=name, path='src%d' % self.k, file=name + '.mib', mtime=10), (self.k, i)
        if o == 0:
            self.log.append(('get', self.k, i, 'nf'))
            raise error.PySmiReaderFileNotFoundError('nf')
        self.log.append(('get', self.k, i, 'err'))
        # the flavours of "reader error" the shipped readers raise (any PySmiError that is not not-found): which one a
        # (source, module) pair raises is fixed by their indices, so that every flavour occurs in every shard
        flavour = (self.k + i) % 3
        if flavour == 0:
            raise error.PySmiReaderError('rd')
        if flavour == 1:
            raise error.PySmiReaderFileNotModifiedError('file exists but cannot be read (FileReader\'s fall-through)')
        raise error.PySmiError('file access error')


class Parser(object):
    def __init__(self, M, outcome, log):
        self.M = M
        self.outcome = outcome
        self.log = log

    def parse(self, data, **kw):
        k, i = data
        o = self.outcome[i]
        self.log.append(('parse', k, i))
        if o == 0:
            return [(k, i)]
        if o == 1:
            raise error.PySmiParserError('bad', lineno=1)
        if o == 2:
            return []
        if o == 4:
            return [(k, (i + 1) % self.M), (k, i)]
        return [(k, i), (k, (i + 1) % self.M)]


class Sym(object):
    def __init__(self, M, imports, bad, log):
        self.M = M
        self.imports = imports
        self.bad = bad
        self.log = log

    def genCode(self, tree, stm, **kw):
        k, i = tree
        self.log.append(('sym', k, i))
        if self.bad[i]:
            raise error.PySmiSemanticError('sem')
        return MibInfo(name=MODS[i], imported=tuple(MODS[j] for j in range(self.M) if self.imports[i][j])), {'m': i}


class Gen(object):
    def __init__(self, bad, log):
        self.bad = bad
        self.log = log

    def genCode(self, tree, stm, **kw):
        k, i = tree
        self.log.append(('gen', k, i, kw.get('genTexts')))
        if self.bad[i]:
            raise error.PySmiCodegenError('cg')
        return MibInfo(name=MODS[i], oid=None, imported=()), ('GEN', k, i)


class Searcher(object):
    def __init__(self, k, outcome, log):
        self.k = k
        self.outcome = outcome
        self.log = log

    def fileExists(self, mibname, mtime, rebuild=False):
        i = MODS.index(mibname.upper())
        self.log.append(('search', self.k, i, rebuild, mtime))
        o = self.outcome[i]
        if o == 0:
            raise error.PySmiFileNotFoundError('nf')
        if o == 1:
            raise error.PySmiFileNotModifiedError('nm')
        if o == 2:
            raise error.PySmiSearcherError('se')
        return


class Borrower(object):
    def __init__(self, k, outcome, log):
        self.k = k
        self.outcome = outcome
        self.log = log

    def getData(self, name, **kw):
        i = MODS.index(name.upper())
        if self.outcome[i] == 1:
            self.log.append(('borrow', self.k, i, 'ok', kw.get('genTexts')))
            return MibInfo(name=name, path='bor%d/%s' % (self.k, name), file=name + '.py', mtime=5), ('BOR', self.k, i)
        self.log.append(('borrow', self.k, i, 'fail', kw.get('genTexts')))
        if (self.k + i) % 2:
            raise error.PySmiReaderFileNotFoundError('nb')     # what a borrower's reader says when it has no copy
        raise error.PySmiError('nb')


class Writer(object):
    def __init__(self, bad, log):
        self.bad = bad
        self.log = log

    def putData(self, name, data, comments=(), dryRun=False):
        i = MODS.index(name.upper())
        if self.bad[i]:
            self.log.append(('put', i, data, dryRun, 'err'))
            raise error.PySmiWriterError('wr')
        self.log.append(('put', i, data, dryRun, 'ok'))


VARS = []
for _i in range(3):
    VARS.append(('req_%d' % _i, bool, _i == 0))
VARS.append(('alias_0', bool, False))
for _i in range(3):
    for _j in range(3):
        VARS.append(('imp_%d_%d' % (_i, _j), bool, False))
for _n, _t, _d in (('s1', int, 1), ('s2', int, 0), ('par', int, 0), ('sym', bool, False), ('gen', bool, False),
                   ('sr1', int, 0), ('sr2', int, 0), ('bo1', int, 0), ('bo2', int, 0), ('wr', bool, False)):
    for _i in range(3):
        VARS.append(('%s_%d' % (_n, _i), _t, _d))
for _n in ('noDeps', 'rebuild', 'dryRun', 'genTexts', 'ignoreErrors'):
    VARS.append((_n, bool, False))
VARS.append(('writeMibs', bool, True))
VARS.append(('twice', bool, False))
VARS.extend([('M', int, 2), ('nsrc', int, 1), ('nsr', int, 0), ('nbo', int, 0)])
DEFAULTS = dict((n, d) for n, t, d in VARS)
RANGES = {'s1': (0, 2), 's2': (0, 2), 'par': (0, 4), 'sr1': (0, 3), 'sr2': (0, 3), 'bo1': (0, 1), 'bo2': (0, 1)}


def in_range(**kw):
    for k, v in kw.items():
        base = k.split('_')[0]
        if base in RANGES:
            lo, hi = RANGES[base]
            if not (lo <= v <= hi):
                return False
    return True


class Cfg(object):
    pass


def build(kw):
    c = Cfg()
    M = c.M = kw['M']
    c.kw = kw
    c.req = [i for i in range(M) if kw['req_%d' % i]] or [0]
    c.imp = [[kw['imp_%d_%d' % (i, j)] for j in range(M)] for i in range(M)]
    c.src = [[kw['s%d_%d' % (k, i)] for i in range(M)] for k in range(1, kw['nsrc'] + 1)]
    c.par = [kw['par_%d' % i] for i in range(M)]
    c.sym = [kw['sym_%d' % i] for i in range(M)]
    c.gen = [kw['gen_%d' % i] for i in range(M)]
    c.sr = [[kw['sr%d_%d' % (k, i)] for i in range(M)] for k in range(1, kw['nsr'] + 1)]
    c.bo = [[kw['bo%d_%d' % (k, i)] for i in range(M)] for k in range(1, kw['nbo'] + 1)]
    c.wr = [kw['wr_%d' % i] for i in range(M)]
    c.opts = dict((o, kw[o]) for o in ('noDeps', 'rebuild', 'dryRun', 'genTexts', 'ignoreErrors', 'writeMibs'))
    return c


def req_name(c, i):
    return MODS[i].lower() if (i == 0 and c.kw.get('alias_0')) else MODS[i]


class _Norm(dict):
    """result mapping looked up by canonical module name (a module whose lookup failed is keyed by the requested spelling)"""

    def get(self, k, d=None):
        for kk in self.keys():
            if kk.upper() == k:
                return dict.__getitem__(self, kk)
        return d

    def __contains__(self, k):
        return any(kk.upper() == k for kk in self.keys())


def run(c):
    """Run the real compile(); returns (result or None, log, escaped exception or None)."""
    log = []
    comp = MibCompiler(Parser(c.M, c.par, log), Gen(c.gen, log), Writer(c.wr, log))
    comp._symbolgen = Sym(c.M, c.imp, c.sym, log)
    comp._get_system_info = lambda: (('?',) * 6, ('?',) * 7)
    comp.addSources(*[Src(k, o, log) for k, o in enumerate(c.src)])
    comp.addSearchers(*[Searcher(k, o, log) for k, o in enumerate(c.sr)])
    comp.addBorrowers(*[Borrower(k, o, log) for k, o in enumerate(c.bo)])
    try:
        if c.kw.get('twice'):
            # C12 / C09: what a call yields does not depend on what the same compiler object did before
            comp.compile(*[req_name(c, i) for i in c.req], **c.opts)
            del log[:]
        res = comp.compile(*[req_name(c, i) for i in c.req], **c.opts)
    except Exception as e:
        return None, log, e
    return _Norm(res), log, None


# ---- ground truth computed by the harness from the configuration -------------

def fetch_outcome(c, i):
    """What happens when compile() looks module i up by name, by the documented
    rule 'sources in order; first source that holds it supplies the text':
    returns (kind, k) with kind in 'ok' (file of i from source k reaches the parser),
    'missing' (all sources say not-found), 'error' (a reader error and no source delivers)."""
    saw_err = False
    for k in range(len(c.src)):
        o = c.src[k][i]
        if o == 1:
            return 'ok', k, saw_err
        if o == 2:
            saw_err = True
    return ('error' if saw_err else 'missing'), None, saw_err


# ---- known finding KF-compile-twomod: tolerated effect, not a carved-out region ------------------------------------------
# A file that holds module i and module i+1 whose second module fails in the symbol-table builder: the failure is keyed by
# the requested name, so module i (built, generated, written) is reported `failed` and offered to borrowers. While that
# finding is open, exactly THESE effects are tolerated for exactly THAT module; every other clause of every oracle is still
# checked inside the region (an earlier version excluded the whole region from the conditions: a seeded change hid there).

def _kf_open(kid):
    import json
    import os
    try:
        with open(os.path.join(os.path.dirname(os.path.dirname(os.path.abspath(__file__))), 'known_findings.json')) as f:
            return any(e.get('id') == kid and e.get('status') == 'open' for e in json.load(f).get('findings', []))
    except (OSError, ValueError):
        return False


TOLERATE_TWOMOD = _kf_open('KF-compile-twomod')
STRICT = [False]            # witnesses of the known finding run the oracles without the tolerance


def twomod(c, i):
    """module i is the first module of a file whose second module fails in the symbol-table builder"""
    return TOLERATE_TWOMOD and not STRICT[0] and c.par[i] == 3 and c.sym[(i + 1) % c.M]


# ---- oracles -----------------------------------------------------------------

def status_of(res, i):
    return res.get(MODS[i])


def puts_of(log, i):
    return [e for e in log if e[0] == 'put' and e[1] == i]


def oracle_C07(c, res, log, exc):
    if exc is not None or res is None:
        return False
    M = c.M
    # every value is one of the six statuses, keys are module names
    for k in res:
        if k.upper() not in MODS[:M]:
            return False
        if res[k] not in STATUSES:
            return False
        if res[k] == 'failed' and not isinstance(getattr(res[k], 'error', None), error.PySmiError):
            return False
    # every requested module is accounted for
    for i in c.req:
        if MODS[i] not in res:
            return False
    # every import of a module whose symbol table was built is accounted for
    for e in log:
        if e[0] == 'sym' and not c.sym[e[2]]:
            for j in range(M):
                if c.imp[e[2]][j] and MODS[j] not in res:
                    return False
    for i in range(M):
        p = puts_of(log, i)
        if len(p) > 1:
            return False
        st = status_of(res, i)
        # statuses match what happened: a module that was looked up, that no source delivered and that nothing else
        # produced (no borrower, no searcher, not found inside another file) is missing or failed - by ground truth
        if any(e[0] == 'get' and e[2] == i for e in log) and not c.bo and not c.sr \
                and not any(e[0] == 'sym' and e[2] == i for e in log):
            kind = fetch_outcome(c, i)[0]
            if kind == 'missing' and st != 'missing':
                return False
            if kind == 'error' and st != 'failed':
                return False
        if c.opts['writeMibs']:
            wrote = len(p) == 1 and p[0][4] == 'ok'
            if (st in ('compiled', 'borrowed')) != wrote:
                if not (twomod(c, i) and wrote and st == 'failed'):
                    return False
            if p:
                # exact text and dryRun flag pass-through
                if p[0][3] != c.opts['dryRun']:
                    return False
                d = p[0][2]
                if not (d[0] in ('GEN', 'BOR') and d[2] == i):
                    return False
                if st == 'compiled' and not (d[0] == 'GEN' and d[2] == i):
                    return False
                if st == 'borrowed' and not (d[0] == 'BOR' and d[2] == i):
                    return False
                if p[0][4] == 'err' and st != 'failed':
                    return False
        else:
            if p:
                return False
    return True


def oracle_C08(c, res, log, exc):
    if exc is not None or res is None:
        return False
    M = c.M
    # closure over modules whose symbol table was built (= successfully parsed)
    built = set(e[2] for e in log if e[0] == 'sym' and not c.sym[e[2]])
    for i in built:
        for j in range(M):
            if c.imp[i][j] and MODS[j] not in res:
                return False
    for i in c.req:
        if MODS[i] not in res:
            return False
    # each module is fetched-and-parsed successfully at most once per call
    for i in range(M):
        oks = [e for e in log if e[0] == 'get' and e[2] == i and e[3] == 'ok' and file_good(c, i)]
        if len(oks) > 1:
            return False
    # Sources are consulted in the order added. Reading chosen (the weaker one, DESIGN 4.6): a source whose
    # text cannot be parsed/analysed does not end the search - compile() deliberately moves on to the next
    # source; the search ends at the first source whose file is good, no later source is asked, and the
    # text that is generated and written comes from that source.
    for i in range(M):
        gets = [e for e in log if e[0] == 'get' and e[2] == i]
        if not gets:
            continue
        if [e[1] for e in gets] != list(range(len(gets))):
            return False
        good = None
        for k in range(len(c.src)):
            if c.src[k][i] == 1 and file_good(c, i):
                good = k
                break
        for e in gets:
            ps = [x for x in log if x[0] == 'parse' and x[2] == i and x[1] == e[1]]
            if len(ps) != (1 if e[3] == 'ok' else 0):
                return False
        if good is not None:
            if len(gets) != good + 1:
                return False
            # (which text wins is not determined by the property when the module ALSO sits inside another
            # module's file that was fetched: skipped in that case)
            prev = (i - 1) % M
            inside_other = M > 1 and c.par[prev] in (3, 4) and any(x[0] == 'parse' and x[2] == prev for x in log)
            for x in log:
                if x[0] == 'gen' and x[2] == i and x[1] != good and not inside_other:
                    return False
        else:
            if len(gets) != len(c.src):
                return False
    return True


def file_good(c, i):
    """the file found for module i parses and every module in it passes the symbol-table builder"""
    if c.par[i] == 0:
        return not c.sym[i]
    if c.par[i] in (3, 4):
        return not c.sym[i] and not c.sym[(i + 1) % c.M]
    return False


def prefail_set(c, res, log):
    """Modules that could not be found / parsed / code-generated and were not borrowed."""
    out = []
    for i in range(c.M):
        st = status_of(res, i)
        if st in ('failed', 'missing') and not puts_of(log, i):
            out.append(i)
    # ground truth, independent of what compile() chose to report: a module of the closure (requested, or imported by a
    # module whose symbol table was built) that has no status at all was lost on the way - it certainly was not compiled
    closure = set(c.req)
    for e in log:
        if e[0] == 'sym' and not c.sym[e[2]]:
            closure.update(j for j in range(c.M) if c.imp[e[2]][j])
    for i in sorted(closure):
        if status_of(res, i) is None and i not in out:
            out.append(i)
    # ... and so does a module that was looked up, that no source delivered and that was never analysed (whatever status
    # compile() gave it), unless a borrowed copy was written for it or a searcher found an up-to-date one
    for i in range(c.M):
        if i in out or not any(e[0] == 'get' and e[2] == i for e in log):
            continue
        if fetch_outcome(c, i)[0] == 'ok' or any(e[0] == 'sym' and e[2] == i for e in log):
            continue
        if puts_of(log, i) or any(c.sr[k][i] == 1 for k in range(len(c.sr))):
            continue
        out.append(i)
    return out


def oracle_C09(c, res, log, exc):
    if exc is not None or res is None:
        return False
    bad = prefail_set(c, res, log)
    puts = [e for e in log if e[0] == 'put']
    gens_ok = [e[2] for e in log if e[0] == 'gen' and not c.gen[e[2]]]
    if bad and not c.opts['ignoreErrors']:
        if puts:
            return False
        for i in range(c.M):
            if status_of(res, i) in ('compiled', 'borrowed'):
                return False
        for i in gens_ok:
            if status_of(res, i) != 'unprocessed':
                return False
    if c.opts['ignoreErrors'] and c.opts['writeMibs']:
        # every built module is written; reported compiled if the writer took it
        for i in gens_ok:
            p = puts_of(log, i)
            if len(p) != 1:
                return False
            if p[0][4] == 'ok' and status_of(res, i) != 'compiled':
                if not (twomod(c, i) and status_of(res, i) in ('failed', 'borrowed')):
                    return False
    return True


def oracle_C10(c, res, log, exc):
    if exc is not None or res is None:
        return False
    for i in range(c.M):
        searches = [e for e in log if e[0] == 'search' and e[2] == i]
        gens = [e for e in log if e[0] == 'gen' and e[2] == i]
        puts = puts_of(log, i)
        borrows = [e for e in log if e[0] == 'borrow' and e[2] == i and e[3] == 'ok']
        # rebuild is passed through unchanged to every searcher
        for e in searches:
            if bool(e[3]) != bool(c.opts['rebuild']):
                return False
        if not searches:
            continue
        # one round of questions = searchers asked in the order added, stop at first not-modified
        rounds = []
        for e in searches:
            if not rounds or e[1] == 0:
                rounds.append([])
            rounds[-1].append(e[1])
        for r in rounds:
            if r != list(range(len(r))):
                return False
            first_nm = None
            for k in range(len(c.sr)):
                if c.sr[k][i] == 1:
                    first_nm = k
                    break
            if first_nm is None:
                if len(r) != len(c.sr):
                    return False
            else:
                if len(r) != first_nm + 1:
                    return False
        fresh = any(c.sr[k][i] == 1 for k in range(len(c.sr)))
        if fresh and not borrows:
            # an up-to-date transformed copy exists: untouched, neither generated nor written
            if gens or puts:
                return False
            if status_of(res, i) != 'untouched':
                return False
        if fresh and borrows:
            if puts or status_of(res, i) != 'untouched':
                return False
    if c.opts['noDeps']:
        # "explicitly requested" is read by file (the weaker reading, DESIGN 4.6): every module held by a file that was
        # fetched for a requested name counts as requested
        allowed = set(c.req)
        for i in c.req:
            if c.par[i] in (3, 4):
                allowed.add((i + 1) % c.M)
        for e in log:
            if e[0] == 'gen' and e[2] not in allowed:
                return False
    # ... and a requested module that was parsed and is not reported up to date IS generated (also under noDeps, also when
    # it was requested under another spelling of its name)
    for i in c.req:
        parsed = any(e[0] == 'sym' and e[2] == i and not c.sym[i] for e in log)
        fresh = any(c.sr[k][i] == 1 for k in range(len(c.sr)))
        if parsed and not fresh and not any(e[0] == 'gen' and e[2] == i for e in log):
            return False
    return True


def oracle_C19(c, res, log, exc):
    if exc is not None or res is None:
        return False
    for i in range(c.M):
        bs = [e for e in log if e[0] == 'borrow' and e[2] == i]
        gen_ok = any(e[0] == 'gen' and e[2] == i and not c.gen[i] for e in log)
        st = status_of(res, i)
        if gen_ok:
            # a module that compiled successfully is never replaced by a borrowed copy
            if (bs or st == 'borrowed') and not twomod(c, i):
                return False
            continue
        if bs:
            # order added, stop at first success, genTexts flavour handed over
            if [e[1] for e in bs] != list(range(len(bs))):
                return False
            for e in bs[:-1]:
                if e[3] == 'ok':
                    return False
            for e in bs:
                if bool(e[4]) != bool(c.opts['genTexts']):
                    return False
        fresh = any(c.sr[k][i] == 1 for k in range(len(c.sr)))
        eligible = (not c.opts['noDeps']) or (i in c.req)
        could = any(c.bo[k][i] == 1 for k in range(len(c.bo)))
        cannot_compile = self_cannot_compile(c, log, i)
        if cannot_compile and eligible and could:
            # must have been borrowed (or found up to date) and no longer count as failure
            if not bs or bs[-1][3] != 'ok':
                return False
            if fresh:
                if st != 'untouched':
                    return False
            else:
                p = puts_of(log, i)
                others_bad = [j for j in prefail_set(c, res, log) if j != i]
                if others_bad and not c.opts['ignoreErrors']:
                    if st != 'unprocessed' or p:
                        return False
                elif c.opts['writeMibs']:
                    if len(p) != 1:
                        return False
                    d = p[0][2]
                    if d != ('BOR', bs[-1][1], i):
                        return False
                    if p[0][4] == 'ok' and st != 'borrowed':
                        return False
                else:
                    if st != 'borrowed':
                        return False
        if st == 'borrowed' and not (bs and bs[-1][3] == 'ok'):
            return False
    return True


def self_cannot_compile(c, log, i):
    """Module i was looked up or generated by this call and no generated text exists for it."""
    touched = any((e[0] == 'get' and e[2] == i) for e in log)
    if not touched:
        return False
    if any(e[0] == 'gen' and e[2] == i for e in log):
        return c.gen[i]
    # never reached the generator: either lookup/parse/symtab failed or it was skipped as up to date / noDeps
    symok = any(e[0] == 'sym' and e[2] == i and not c.sym[i] for e in log)
    return not symok


def oracle_C13(c, res, log, exc):
    """in dry-run mode, or with writing disabled, nothing is handed to the writer for real (the file system is not modified)"""
    if exc is not None or res is None:
        return False
    for e in log:
        if e[0] == 'put':
            if not c.opts['writeMibs']:
                return False                        # writing disabled: the writer is not even called
            if c.opts['dryRun'] and not e[3]:
                return False                        # dry run: the writer is told so
            if not c.opts['dryRun'] and e[3]:
                return False
    return True


ORACLES = {'C13': oracle_C13, 'C07': oracle_C07, 'C08': oracle_C08, 'C09': oracle_C09, 'C10': oracle_C10, 'C19': oracle_C19}


def _check(oracle, kw):
    c = build(kw)
    res, log, exc = run(c)
    return ORACLES[oracle](c, res, log, exc)


_sig = ', '.join('%s: %s' % (n, t.__name__) for n, t, d in VARS)
_pre = ' and '.join('%d <= %s <= %d' % (RANGES[n.split('_')[0]][0], n, RANGES[n.split('_')[0]][1])
                    for n, t, d in VARS if n.split('_')[0] in RANGES)
_src = '''
def check(oracle: str, %s) -> bool:
    """
    requires: %s
    """
    return _check(oracle, dict(%s))


def reach(oracle: str, %s) -> bool:
    """
    requires: %s
    """
    return not _check(oracle, dict(%s))
''' % (_sig, _pre, ', '.join('%s=%s' % (n, n) for n, t, d in VARS),
       _sig, _pre, ', '.join('%s=%s' % (n, n) for n, t, d in VARS))
exec(_src)


def fixed_except(oracle, free, **over):
    """fixed-argument dict for a shard: every variable not in `free` gets its default (or override)."""
    fx = {'oracle': oracle}
    for n, t, d in VARS:
        if n in free:
            continue
        fx[n] = over.get(n, d)
    for k in over:
        if k in free:
            raise ValueError(k)
    return fx


# ---- shards ------------------------------------------------------------------

def _imps(M):
    return ['imp_%d_%d' % (i, j) for i in range(M) for j in range(M)]


def _v(name, M):
    return ['%s_%d' % (name, i) for i in range(M)]


def shards(tier):
    """(name, free variables, overrides, CPU timeout, bounds text); everything not free is concrete."""
    out = []
    Q = 300
    out.append(('graph2', _imps(2) + _v('s1', 2) + _v('par', 2) + _v('gen', 2) + ['ignoreErrors', 'twice'], dict(M=2), Q,
                '2 modules, 1 source: all 16 import graphs x source x parser x codegen outcomes x ignoreErrors'))
    out.append(('symwr2', _v('sym', 2) + _v('wr', 2) + _v('par', 2) + ['ignoreErrors', 'imp_0_1', 'imp_1_0', 'req_1'],
                dict(M=2), Q, '2 modules: symtab/writer/parser outcomes x ignoreErrors x request set'))
    out.append(('nowrite2', ['imp_0_1', 'imp_1_0'] + _v('s1', 2) + _v('gen', 2) + _v('wr', 2)
                + ['ignoreErrors', 'dryRun', 'writeMibs'], dict(M=2), Q,
                '2 modules: writeMibs/dryRun/ignoreErrors x source/codegen/writer outcomes'))
    out.append(('sources2', _v('s1', 2) + _v('s2', 2) + ['imp_0_1'] + _v('par', 2) + ['ignoreErrors'],
                dict(M=2, nsrc=2), Q, '2 modules, 2 sources: every answer pair x parser outcome'))
    out.append(('searchers2', _v('sr1', 2) + _v('sr2', 2) + ['noDeps', 'rebuild', 'req_1', 'imp_0_1', 'alias_0'],
                dict(M=2, nsr=2), Q, '2 modules, 2 searchers: every answer x noDeps/rebuild x request set'))
    out.append(('borrow2', _v('bo1', 2) + _v('bo2', 2) + _v('s1', 2) + _v('gen', 2)
                + ['noDeps', 'genTexts', 'ignoreErrors', 'req_1', 'imp_0_1', 'alias_0'], dict(M=2, nbo=2), Q,
                '2 modules, 2 borrowers: every answer x lookup/codegen failures x noDeps/genTexts/ignoreErrors'))
    out.append(('borrowfile2', _v('bo1', 2) + _v('s1', 2) + _v('par', 2) + ['req_1', 'ignoreErrors', 'noDeps'], dict(M=2, nbo=1), Q,
                '2 modules, 1 borrower: lookup failures x files that hold one or two modules (a module that fails under its own name and is '
                'then found inside the other module\'s file) x request set'))
    if tier == 'thorough':
        T = 1700
        for p0 in range(5):
            for p1 in range(5):
                out.append(('core2-p%d%d' % (p0, p1),
                            _imps(2) + _v('s1', 2) + _v('sym', 2) + _v('gen', 2) + _v('wr', 2) + ['req_1', 'ignoreErrors'],
                            dict(M=2, par_0=p0, par_1=p1), T,
                            '2 modules, full product of import graphs and component outcomes (parser outcome per shard)'))
        for nd in (False, True):
            for ig in (False, True):
                for r1 in (False, True):
                    out.append(('borrowsearch2-nd%d-ig%d-r%d' % (nd, ig, r1),
                                _v('bo1', 2) + _v('s1', 2) + _v('par', 2) + _v('gen', 2) + _v('sr1', 2) + ['imp_0_1', 'genTexts'],
                                dict(M=2, nbo=1, nsr=1, noDeps=nd, ignoreErrors=ig, req_1=r1), T,
                                '2 modules, 1 borrower + 1 searcher x lookup/parse/codegen failures'))
        for rb in (False, True):
            out.append(('searchgen2-rb%d' % rb, _v('sr1', 2) + _v('sr2', 2) + _v('gen', 2) + _v('s1', 2)
                        + ['noDeps', 'req_1', 'imp_0_1', 'imp_1_0'], dict(M=2, nsr=2, rebuild=rb), T,
                        '2 modules, 2 searchers x codegen/source failures'))
        for a in range(3):
            out.append(('sources2full-s%d' % a, _v('s2', 2) + ['s1_1', 'imp_0_1', 'imp_1_0', 'imp_1_1'] + _v('par', 2)
                        + _v('sym', 2) + ['ignoreErrors', 'req_1'], dict(M=2, nsrc=2, s1_0=a), T,
                        '2 modules, 2 sources, parser+symtab outcomes'))
        for ig in (False, True):
            out.append(('graph3-ig%d' % ig, _imps(3) + _v('s1', 3) + _v('gen', 3), dict(M=3, ignoreErrors=ig), T,
                        '3 modules: all 512 import graphs x source x codegen outcomes'))
            out.append(('parse3-ig%d' % ig, _v('par', 3) + _v('sym', 3) + ['imp_0_1', 'imp_1_2', 'imp_2_0', 'imp_0_2', 'req_1', 'req_2'],
                        dict(M=3, ignoreErrors=ig), T, '3 modules: parser/symtab outcomes on chains and cycles'))
            out.append(('borrow3-ig%d' % ig, _v('bo1', 3) + _v('s1', 3) + _v('gen', 3) + ['imp_0_1', 'imp_1_2', 'noDeps', 'req_1'],
                        dict(M=3, nbo=1, ignoreErrors=ig), T, '3 modules, 1 borrower'))
        out.append(('searchers3', _v('sr1', 3) + _v('sr2', 3) + ['noDeps', 'rebuild', 'imp_0_1', 'imp_1_2', 'req_1'],
                    dict(M=3, nsr=2), T, '3 modules, 2 searchers'))
        out.append(('sources3', _v('s1', 3) + _v('s2', 3) + ['imp_0_1', 'imp_1_2', 'imp_2_0', 'ignoreErrors'],
                    dict(M=3, nsrc=2), T, '3 modules, 2 sources'))
    return out


# quick shards are split on these variables (enumerated per process) so that all cores are used and the wall time drops
SPLIT = {'graph2': ['ignoreErrors', 's1_0', 'twice'], 'symwr2': ['ignoreErrors', 'req_1'], 'searchers2': ['noDeps', 'sr1_0'],
         'borrow2': ['noDeps', 'ignoreErrors'], 'sources2': ['s1_0'], 'nowrite2': ['writeMibs'], 'borrowfile2': ['par_0', 'req_1']}


def _values(var):
    base = var.split('_')[0]
    if base in RANGES:
        return list(range(RANGES[base][0], RANGES[base][1] + 1))
    return [False, True]


def conditions(prop, tier):
    import itertools
    out = []
    for name, free, over, timeout, bounds in shards(tier):
        if prop == 'C13' and name != 'nowrite2':
            continue
        split = [v for v in SPLIT.get(name, []) if v in free]
        rest = [v for v in free if v not in split]
        for combo in itertools.product(*[_values(v) for v in split]):
            ov = dict(over)
            ov.update(dict(zip(split, combo)))
            fx = fixed_except(prop, rest, **ov)
            tag = ''.join('-%s%d' % (v.replace('_', ''), int(x)) for v, x in zip(split, combo))
            out.append(dict(name='%s.compile.%s%s' % (prop, name, tag), fn='check', fixed=fx, timeout=timeout,
                            bounds=bounds + '; free=' + ','.join(rest) + ('; fixed in this shard: ' + ', '.join('%s=%s' % z for z in zip(split, combo)) if split else ''),
                            reach_fn='reach', reach_timeout=60))
    return out


def selftests(prop):
    # the all-defaults configuration (A compiles alone) and a two-module chain must satisfy every oracle
    base = dict(DEFAULTS)
    chain = dict(DEFAULTS, imp_0_1=True)
    return [('check', dict(base, oracle=prop)), ('check', dict(chain, oracle=prop))]


def kf_second_module_bad(M, par_0, par_1, par_2, sym_0, sym_1, sym_2):
    """carve-out of known finding KF-compile-twomod: a file that holds two modules whose second one
    fails in the symbol-table builder."""
    par = [par_0, par_1, par_2]
    sym = [sym_0, sym_1, sym_2]
    for i in range(M):
        if par[i] == 3 and sym[(i + 1) % M]:
            return True
    return False


def check_defaults(oracle: str, over: str) -> bool:
    """concrete entry used by witnesses: defaults overridden by a JSON object"""
    import json
    kw = dict(DEFAULTS)
    kw.update(json.loads(over))
    STRICT[0] = True                    # witnesses demonstrate the finding itself
    try:
        return _check(oracle, kw)
    finally:
        STRICT[0] = False
