"""Layout half of C02 and character level of C11: ONE call of the real ply Lexer.token() (real t_* actions, real state
machine, real literals / t_ignore handling) from an arbitrary lexer state on an arbitrary remaining input of bounded
length, the input being a CrossHair symbolic string (engine LEX, see harness/lexshim.py).

Checked per call (state S, line L, remaining text s):
  I1  the line counter grows by exactly the number of line breaks (CRLF, LF, CR) in the consumed text
  I3  a returned token's value is the lexeme it was cut from (numbers: its integer value), its line is the line it starts on
  P1  only the package's lexer error is ever raised (C11); it carries the line of the offending character
  P2  progress: a call that returns consumes at least one character unless the input is exhausted (=> termination)
  P3  forbidden ASN.1 words and numbers beyond 64 bits are rejected, never tokenised
"""
from pysmi.lexer.smi import lexerFactory
from pysmi.parser import dialect as _dialect
from pysmi import error
from harness import lexshim, tok

STATES = ['INITIAL', 'macro', 'choice', 'exports', 'comment']
MAXN = 6


class CmpDict(dict):
    """dict whose get() decides membership by comparison (hashing would realise a symbolic string)"""

    def get(self, k, d=None):
        for kk in self.keys():
            if kk == k:
                return dict.__getitem__(self, kk)
        return d


_LEX = {}


def lexer_for(dialect):
    if dialect not in _LEX:
        lx = lexerFactory(**getattr(_dialect, dialect))()
        lexshim.install(lx.lexer)
        lexshim.install_re_shim()        # re.findall inside the t_* actions goes through the same matcher
        # words longer than the input bound cannot equal a bounded input: drop them from the comparison tables
        lx.reserved = CmpDict((k, v) for k, v in lx.reserved.items() if len(k) <= MAXN)
        lx.forbidden_words = [w for w in lx.forbidden_words if len(w) <= MAXN]
        _LEX[dialect] = lx
    return _LEX[dialect]


def count_breaks(t):
    n = 0
    i = 0
    while i < len(t):
        c = t[i]
        if c == '\r':
            n += 1
            if i + 1 < len(t) and t[i + 1] == '\n':
                i += 1
        elif c == '\n':
            n += 1
        i += 1
    return n


def pick(table, k):
    for i in range(len(table)):
        if k == i:
            return table[i]
    return table[0]


def one_token(dialect, state, lineno0, s):
    """-> ('tok', type, value, tok.lineno, tok.lexpos, pos_after, line_after, state_after) | ('eof', pos, line, state)
         | ('lexerr', lineno, pos, line_after) | ('other', repr)"""
    lx = lexer_for(dialect)
    l = lx.lexer.clone()
    l.begin(state)
    l.lineno = lineno0
    l.input(s)
    try:
        t = l.token()
    except error.PySmiLexerError as e:
        return ('lexerr', e.lineno, l.lexpos, l.lineno)
    except Exception as e:
        return ('other', type(e).__name__)
    if t is None:
        return ('eof', l.lexpos, l.lineno, l.lexstate)
    return ('tok', t.type, t.value, t.lineno, t.lexpos, l.lexpos, l.lineno, l.lexstate)


def step(st: int, lineno0: int, s: str) -> bool:
    """
    requires: 0 <= st < 5 and 1 <= lineno0 and len(s) <= MAXN
    """
    state = pick(STATES, st)
    r = one_token('smiV2', state, lineno0, s)
    if r[0] == 'other':
        return False                                        # P1
    if r[0] == 'lexerr':
        _, eline, pos, line_after = r
        # the error carries the line of the offending character: breaks before it have been counted
        return eline == lineno0 + count_breaks(s[:pos]) or eline == line_after
    if r[0] == 'eof':
        _, pos, line_after, state_after = r
        if pos != len(s) and pos != len(s) + 1:      # (ply leaves lexpos one past the end when input is exhausted)
            return False
        return line_after - lineno0 == count_breaks(s)      # I1 on skipped text
    _, ttype, value, tline, tpos, pos, line_after, state_after = r
    if pos <= 0 or pos > len(s) or tpos >= pos:
        return False                                        # P2
    if line_after - lineno0 != count_breaks(s[:pos]):
        return False                                        # I1
    lexeme = s[tpos:pos]
    if ttype in ('NUMBER', 'NEGATIVENUMBER', 'NUMBER64', 'NEGATIVENUMBER64'):
        if not isinstance(value, int):
            return False
    elif value != lexeme:
        return False                                        # I3
    if tline != lineno0 + count_breaks(s[:tpos]):
        return False
    return True


FORBIDDEN_SHORT = ['ANY', 'BIT', 'BY', 'MAX', 'MIN', 'SET', 'TRUE', 'REAL', 'NULL', 'WITH', 'TAGS']


def forbidden(i: int, dialect: int, tail: int) -> bool:
    """
    requires: 0 <= i < len(FORBIDDEN_SHORT) and 0 <= dialect <= 1 and 0 <= tail <= 3
    """
    w = pick(FORBIDDEN_SHORT, i)
    d = pick(['smiV2', 'smiV1'], dialect)
    text = w + pick(['', ' ', '\n', ' x'], tail)
    r = one_token(d, 'INITIAL', 1, text)
    if d == 'smiV1' and w == 'MAX':
        return r[0] == 'tok' and r[1] == 'MAX'              # the SMIv1 dialect reserves MAX instead of forbidding it
    return r[0] == 'lexerr' and r[1] == 1


# RFC 2578 section 3.7: ASN.1 keywords that must not appear in an SMIv2 module (written down here, not read from the lexer)
RFC2578_FORBIDDEN = ['ABSENT', 'ANY', 'BIT', 'BOOLEAN', 'BY', 'COMPONENT', 'COMPONENTS', 'DEFAULT', 'DEFINED',
                     'ENUMERATED', 'EXPLICIT', 'EXTERNAL', 'FALSE', 'MIN', 'MINUS-INFINITY', 'NULL', 'OPTIONAL', 'PLUS-INFINITY',
                     'PRESENT', 'PRIVATE', 'REAL', 'SET', 'TAGS', 'TRUE', 'WITH']
# (APPLICATION and UNIVERSAL are left out: the base SMI modules themselves use tagged types, the lexer accepts them on purpose)


def forbidden_seq(i: int, dialect: int, k: int, ctx: int) -> bool:
    """
    requires: 0 <= i < len(RFC2578_FORBIDDEN) and 0 <= dialect <= 2 and 0 <= k <= 3 and 0 <= ctx <= 2
    """
    # the REAL lexer object of the dialect, untouched by the harness (no shim, no table rewriting), on a concrete text: a
    # forbidden word after k other identifiers, in three syntactic positions; it must be rejected with the line it stands on
    w = pick(RFC2578_FORBIDDEN, i)
    d = pick(['smiV2', 'smiV1', 'smiV1Relaxed'], dialect)
    k = pick([0, 1, 2, 3], k)
    ctx = pick([0, 1, 2], ctx)
    with tok._untraced():
        from pysmi.lexer.smi import lexerFactory
        from pysmi.parser import dialect as _dl
        lx = lexerFactory(**getattr(_dl, d))()
        head = ''.join('Name%d ' % j for j in range(k))
        text = head + '\n' + ('SYNTAX %s' % w, 'IMPORTS %s FROM X' % w, '%s ::= INTEGER' % w)[ctx]
        lx.lexer.input(text)
        n = 0
        try:
            while True:
                t = lx.lexer.token()
                if t is None:
                    return False                    # the forbidden word was tokenised
                n += 1
                if n > 40:
                    return False
        except error.PySmiLexerError as e:
            return e.lineno == 2
        except Exception:
            return False


DIALECT_WORDS = ['NetworkAddress', 'Counter', 'Gauge', 'ACCESS', 'TRAP-TYPE', 'Integer32', 'OBJECT-TYPE', 'MyType', 'ACCESSX']


def dialect_words(i: int, dialect: int, warm: int) -> bool:
    """
    requires: 0 <= i < len(DIALECT_WORDS) and 0 <= dialect <= 2 and 0 <= warm <= 2
    """
    # the keyword tables of the three dialects are separate objects: building (and using) the lexer of one dialect first must
    # not change how another dialect types a word. Untouched real lexers, concrete text; the expected token types are
    # written down here. NetworkAddress is an ordinary type name for the strict SMIv2 lexer and a keyword for the SMIv1 ones.
    w = pick(DIALECT_WORDS, i)
    names = ['smiV2', 'smiV1', 'smiV1Relaxed']
    d, first = pick(names, dialect), pick(names, warm)
    with tok._untraced():
        from pysmi.lexer.smi import lexerFactory
        from pysmi.parser import dialect as _dl

        def lex(name, text):
            lx = lexerFactory(**getattr(_dl, name))()
            lx.lexer.input(text)
            out = []
            while True:
                t = lx.lexer.token()
                if t is None:
                    return out
                out.append(t.type)
        try:
            lex(first, 'Warm NetworkAddress Counter')
            got = lex(d, 'X ' + w)
        except Exception:
            return False
    v1 = d != 'smiV2'
    want = {'NetworkAddress': 'NETWORKADDRESS' if v1 else 'UPPERCASE_IDENTIFIER', 'Counter': 'COUNTER32', 'Gauge': 'GAUGE32', 'ACCESS': 'ACCESS',
            'TRAP-TYPE': 'TRAP_TYPE', 'Integer32': 'INTEGER32', 'OBJECT-TYPE': 'OBJECT_TYPE', 'MyType': 'UPPERCASE_IDENTIFIER',
            'ACCESSX': 'UPPERCASE_IDENTIFIER'}[w]
    return got == ['UPPERCASE_IDENTIFIER', want]


def lit_alphabet(s):
    for ch in s:
        if ch not in "'019aFhHbB ":
            return False
    return True


def conditions(prop, tier):
    q = tier == 'quick'
    t = 280 if q else 1700
    out = []
    # INITIAL is sharded by the class of the first character, the exclusive states by state
    first = [('upper', "'A' <= s[0] <= 'Z'"), ('lower', "'a' <= s[0] <= 'z'"), ('digit', "'0' <= s[0] <= '9'"),
             ('minus', "s[0] == '-'"), ('quote', "s[0] == '\"'"), ('apos', "s[0] == chr(39)"),
             ('space', "s[0] in ' \\t\\r\\n'"), ('punct', "s[0] in '[]{}():;,.|'"),
             ('other', "not ('A' <= s[0] <= 'Z' or 'a' <= s[0] <= 'z' or '0' <= s[0] <= '9' or s[0] in '-\"' or s[0] == chr(39) "
                       "or s[0] in ' \\t\\r\\n' or s[0] in '[]{}():;,.|')")]
    n0 = 3 if q else 4
    IDCH = "(s[1] == '-' or 'a' <= s[1] <= 'z' or 'A' <= s[1] <= 'Z' or '0' <= s[1] <= '9')"
    for tag, pre in first:
        if tag in ('upper', 'lower'):
            # the two big classes are split further (by length and by the class of the second character) to use all cores
            subs = [('-short', '1 <= len(s) <= %d' % (n0 - 1)), ('-idch', 'len(s) == %d and %s' % (n0, IDCH)),
                    ('-other', 'len(s) == %d and not %s' % (n0, IDCH))]
        else:
            subs = [('', '1 <= len(s) <= %d' % n0)]
        for sub, lenpre in subs:
            out.append(dict(name='%s.lex.INITIAL.%s%s' % (prop, tag, sub), fn='step', fixed=dict(st=0), timeout=t,
                            extra_pre=[lenpre, pre],
                            bounds='one token() call from INITIAL, symbolic line number, symbolic text of 1..%d characters starting with a %s '
                                   'character%s' % (n0, tag, ' (sub-shard %s)' % sub[1:] if sub else '')))
    # hex / binary literals need 4+ characters to have a digit part: a shard over the literal alphabet only
    for ln in range(n0 + 1, (5 if q else 6) + 1):
        for z in (True, False):
            out.append(dict(name='%s.lex.INITIAL.apos-literal.len%d.%s' % (prop, ln, 'zero' if z else 'other'), fn='step', fixed=dict(st=0), timeout=t,
                            extra_pre=['len(s) == %d' % ln, 's[0] == chr(39)', 'lit_alphabet(s)', "s[1] == '0'" if z else "s[1] != '0'"],
                            bounds="one token() call from INITIAL on a text of %d characters over the alphabet ' 0 1 9 a F h H b B blank, starting with "
                                   "an apostrophe (hex and binary literals with leading zeros, odd lengths, upper/lower-case radix letters)" % ln))
    out.append(dict(name='%s.lex.INITIAL.empty' % prop, fn='step', fixed=dict(st=0, s=''), timeout=t, bounds='empty remaining input'))
    for st, n in ((1, 4 if q else 5), (2, 3 if q else 4), (3, 3 if q else 4), (4, 3 if q else 4)):
        out.append(dict(name='%s.lex.%s' % (prop, STATES[st]), fn='step', fixed=dict(st=st), timeout=t,
                        extra_pre=['len(s) <= %d' % n],
                        bounds='one token() call from state %s, symbolic line number, symbolic text of 0..%d characters' % (STATES[st], n)))
    out.append(dict(name='%s.lex.dialect-words' % prop, fn='dialect_words', fixed={}, timeout=t,
                    bounds='9 words that the dialects type differently or alike, under each of the three dialects, after a lexer of each of the three '
                           'dialects was built and used first: token types as written down in the harness (keyword tables are not shared between dialects)'))
    if prop == 'C11':
        out.append(dict(name='C11.lex.forbidden-real-lexer', fn='forbidden_seq', fixed={}, timeout=t,
                        bounds='each of the %d ASN.1 keywords RFC 2578 forbids, after 0-3 other identifiers, in a SYNTAX / IMPORTS / type-name position, all three '
                               'dialects: rejected by the untouched real lexer with the line it stands on (concrete text per solver-explored choice)' % len(RFC2578_FORBIDDEN)))
        out.append(dict(name='C11.lex.forbidden', fn='forbidden', fixed={}, timeout=t,
                        bounds='every forbidden ASN.1 word of <=4 letters, followed by nothing / blank / newline / more text, smiV2 and smiV1 dialect'))
    return out


def selftests(prop):
    return [('step', dict(st=0, lineno0=3, s='ab\n')), ('step', dict(st=0, lineno0=1, s='"a\r\n"')),
            ('step', dict(st=1, lineno0=1, s='END')), ('step', dict(st=4, lineno0=9, s='x\r\ny')),
            ('step', dict(st=0, lineno0=1, s='-12')), ('step', dict(st=0, lineno0=1, s="'0'H")),
            ('forbidden', dict(i=0, dialect=0, tail=1)), ('forbidden_seq', dict(i=4, dialect=2, k=2, ctx=0))]


# ---- direct solver obligations: first-match pre-emption between the rules of the master regex (z3 regex theory) --------

def replay_lexeme(w, rule):
    """does the REAL lexer (C re) return `w` as ONE token of rule `rule` from INITIAL? True = yes"""
    lx = lexerFactory()()
    lx.lexer.input(w)
    try:
        t = lx.lexer.token()
    except Exception:
        return False
    return t is not None and t.value == w and lx.lexer.token() is None


def replay_comment(ident):
    """`<ident>--comment` + newline + `y`: the REAL lexer yields the identifier and then y. True = yes"""
    lx = lexerFactory()()
    lx.lexer.input(ident + '--comment\ny')
    vals = []
    try:
        while True:
            t = lx.lexer.token()
            if t is None:
                break
            vals.append(t.value)
    except Exception:
        return False
    return vals == [ident, 'y']


def solver_obligations(prop, tier, ctx):
    if prop != 'C02':
        return []
    import json
    import os
    import z3
    from engine import smt
    lx = lexerFactory()()
    try:
        rules = smt.master_rules(lx.lexer, 'INITIAL')
    except Exception as e:
        return [dict(cond='C02.lex.rule-preemption', status='inconclusive', verdict='UNTRANSLATABLE', paths=0, reason=str(e))]
    S = z3.StringSort()
    any_ = z3.AllChar(z3.ReSort(S))
    regs = []
    prefix = {}
    for name, nodes, flags in rules:
        try:
            regs.append((name, smt.re_whole_to_z3(nodes, flags)))
            prefix[name] = smt.re_prefix_to_z3(nodes, flags)        # trailing negative look-aheads are understood here
        except smt.Untranslatable as e:
            regs.append((name, None))
    known = set()
    try:
        for f in json.load(open(os.path.join(ctx['verif'], 'known_findings.json')))['findings']:
            if f.get('status') == 'open' and 'C02' in f.get('properties', []):
                known.add(f['id'])
    except Exception:
        pass
    w = z3.String('w')
    recs = []
    token_rules = ('t_UPPERCASE_IDENTIFIER', 't_LOWERCASE_IDENTIFIER', 't_NUMBER', 't_BIN_STRING', 't_HEX_STRING', 't_QUOTED_STRING',
                   't_DOT_DOT', 't_COLON_COLON_EQUAL')
    total = 0.0
    nq = 0
    sat_pairs = []
    unknown = []
    for i, (ni, ri) in enumerate(regs):
        if ni not in token_rules or ri is None:
            continue
        for j in range(i):
            nj, rj = regs[j]
            if rj is None:
                unknown.append((nj, ni))
                continue
            # (a lexeme that IS a lexeme of the earlier rule - the keyword itself - is meant to be pre-empted)
            v, model, dt, _ = smt.check([z3.InRe(w, ri), z3.InRe(w, prefix[nj]), z3.Not(z3.InRe(w, rj)), z3.Not(z3.SuffixOf(z3.StringVal('-'), w)), z3.Length(w) <= 12], 60000)
            total += dt
            nq += 1
            if v == 'sat':
                sat_pairs.append((nj, ni, model[w].as_string()))
            elif v != 'unsat':
                unknown.append((nj, ni))
    base = dict(fn='master regex of the INITIAL lexer state (rule order as ply built it) -> z3 regular expressions', paths=0, queries=nq,
                solver_cpu_s=round(total, 2),
                bounds='every ordered pair (earlier rule, token rule): is some lexeme of the token rule pre-empted by a match of the earlier '
                       'rule on one of its prefixes? (ply takes the FIRST matching alternative); unsat answers hold for lexemes of any length')
    real = [(nj, ni, wv) for nj, ni, wv in sat_pairs if not replay_lexeme(wv, ni)]
    if real:
        kid = 'KF-lexer-keyword-prefix'
        desc = '; '.join('%s pre-empts %s on %r' % r for r in real[:4])
        if kid in known and all(nj in ('t_MACRO', 't_EXPORTS', 't_CHOICE') for nj, ni, wv in real):
            recs.append(dict(base, cond='C02.lex.rule-preemption', status='known', known_id=kid, verdict='sat',
                             message='identifiers that begin with MACRO / EXPORTS / CHOICE are split: ' + desc))
        else:
            nj, ni, wv = [r for r in real if r[0] not in ('t_MACRO', 't_EXPORTS', 't_CHOICE')][0] if kid in known else real[0]
            rel = 'replays/C02-lex-preemption.py'
            os.makedirs(os.path.join(ctx['verif'], 'replays'), exist_ok=True)
            with open(os.path.join(ctx['verif'], rel), 'w') as fh:
                fh.write('import os, sys\nsys.path.insert(0, os.environ.get("VERIF_REPO", "/repo"))\n'
                         'sys.path.insert(0, os.path.dirname(os.path.dirname(os.path.abspath(__file__))))\n'
                         'from harness.c02_lex import replay_lexeme\nsys.exit(0 if replay_lexeme(%r, %r) else 1)\n' % (wv, ni))
            recs.append(dict(base, cond='C02.lex.rule-preemption', status='violation', verdict='sat', counterexample=dict(lexeme=wv, rule=ni, preempted_by=nj),
                             replay=rel, message='the lexeme %r of %s is not returned as one token: %s matches a prefix first' % (wv, ni, nj)))
    elif unknown:
        recs.append(dict(base, cond='C02.lex.rule-preemption', status='inconclusive', verdict='unknown', reason='undecided pairs: %r' % (unknown[:5],)))
    else:
        recs.append(dict(base, cond='C02.lex.rule-preemption', status='held', verdict='unsat', confirmed_paths=nq))
    # comments: `--` inside something the identifier rules accept
    ident = [r for n, r in regs if n in ('t_UPPERCASE_IDENTIFIER', 't_LOWERCASE_IDENTIFIER') and r is not None]
    if ident:
        v, model, dt, _ = smt.check([z3.Or(*[z3.InRe(w, r) for r in ident]), z3.Contains(w, z3.StringVal('--')),
                                     z3.Not(z3.SuffixOf(z3.StringVal('-'), w)), z3.Length(w) <= 6], 60000)
        rec = dict(base, cond='C02.lex.comment-after-identifier', queries=1, solver_cpu_s=round(dt, 2), verdict=v,
                   bounds='is there an identifier lexeme that contains `--` (where a comment starts)?')
        if v == 'unsat':
            rec.update(status='held', confirmed_paths=1)
        elif v == 'sat':
            wv = model[w].as_string()
            if 'KF-lexer-double-hyphen' in known:
                rec.update(status='known', known_id='KF-lexer-double-hyphen',
                           message='%r is taken as ONE identifier: a `--` comment directly after an identifier is not recognised' % wv)
            else:
                rec.update(status='violation', counterexample=dict(lexeme=wv), replay='replays/C02-lex-preemption.py',
                           message='%r lexes as one identifier although `--` starts a comment' % wv)
        else:
            rec.update(status='inconclusive', reason='z3: %s' % v)
        recs.append(rec)
    return recs
