"""Layout half of C02 and character level of C11: ONE call of the real ply Lexer.token() (real t_* actions, real state
machine, real literals / t_ignore handling) from an arbitrary lexer state on an arbitrary remaining input of bounded
length, the input being a CrossHair symbolic string (engine LEX, see harness/lexshim.py).

Checked per call (state S, line L, remaining text s):
  I1  the line counter grows by exactly the number of line breaks (CRLF, LF, CR) in the consumed text
  I3  a returned token's value is the lexeme it was cut from (numbers: its integer value), its line is the line it starts on
  P1  only the package's lexer error is ever raised (C11); it carries the line of the offending character
  P2  progress: a call that returns consumes at least one character unless the input is exhausted (=> termination)
  P3  forbidden ASN.1 words and numbers beyond 64 bits are rejected, never tokenised
"""
from pysmi.lexer.smi import lexerFactory
from pysmi.parser import dialect as _dialect
from pysmi import error
from harness import lexshim

STATES = ['INITIAL', 'macro', 'choice', 'exports', 'comment']
MAXN = 6


class CmpDict(dict):
    """dict whose get() decides membership by comparison (hashing would realise a symbolic string)"""

    def get(self, k, d=None):
        for kk in self.keys():
            if kk == k:
                return dict.__getitem__(self, kk)
        return d


_LEX = {}


def lexer_for(dialect):
    if dialect not in _LEX:
        lx = lexerFactory(**getattr(_dialect, dialect))()
        lexshim.install(lx.lexer)
        lexshim.install_re_shim()        # re.findall inside the t_* actions goes through the same matcher
        # words longer than the input bound cannot equal a bounded input: drop them from the comparison tables
        lx.reserved = CmpDict((k, v) for k, v in lx.reserved.items() if len(k) <= MAXN)
        lx.forbidden_words = [w for w in lx.forbidden_words if len(w) <= MAXN]
        _LEX[dialect] = lx
    return _LEX[dialect]


def count_breaks(t):
    n = 0
    i = 0
    while i < len(t):
        c = t[i]
        if c == '\r':
            n += 1
            if i + 1 < len(t) and t[i + 1] == '\n':
                i += 1
        elif c == '\n':
            n += 1
        i += 1
    return n


def pick(table, k):
    for i in range(len(table)):
        if k == i:
            return table[i]
    return table[0]


def one_token(dialect, state, lineno0, s):
    """-> ('tok', type, value, tok.lineno, tok.lexpos, pos_after, line_after, state_after) | ('eof', pos, line, state)
         | ('lexerr', lineno, pos, line_after) | ('other', repr)"""
    lx = lexer_for(dialect)
    l = lx.lexer.clone()
    l.begin(state)
    l.lineno = lineno0
    l.input(s)
    try:
        t = l.token()
    except error.PySmiLexerError as e:
        return ('lexerr', e.lineno, l.lexpos, l.lineno)
    except Exception as e:
        return ('other', type(e).__name__)
    if t is None:
        return ('eof', l.lexpos, l.lineno, l.lexstate)
    return ('tok', t.type, t.value, t.lineno, t.lexpos, l.lexpos, l.lineno, l.lexstate)


def step(st: int, lineno0: int, s: str) -> bool:
    """
    requires: 0 <= st < 5 and 1 <= lineno0 and len(s) <= MAXN
    """
    state = pick(STATES, st)
    r = one_token('smiV2', state, lineno0, s)
    if r[0] == 'other':
        return False                                        # P1
    if r[0] == 'lexerr':
        _, eline, pos, line_after = r
        # the error carries the line of the offending character: breaks before it have been counted
        return eline == lineno0 + count_breaks(s[:pos]) or eline == line_after
    if r[0] == 'eof':
        _, pos, line_after, state_after = r
        if pos != len(s) and pos != len(s) + 1:      # (ply leaves lexpos one past the end when input is exhausted)
            return False
        return line_after - lineno0 == count_breaks(s)      # I1 on skipped text
    _, ttype, value, tline, tpos, pos, line_after, state_after = r
    if pos <= 0 or pos > len(s) or tpos >= pos:
        return False                                        # P2
    if line_after - lineno0 != count_breaks(s[:pos]):
        return False                                        # I1
    lexeme = s[tpos:pos]
    if ttype in ('NUMBER', 'NEGATIVENUMBER', 'NUMBER64', 'NEGATIVENUMBER64'):
        if not isinstance(value, int):
            return False
    elif value != lexeme:
        return False                                        # I3
    if tline != lineno0 + count_breaks(s[:tpos]):
        return False
    return True


FORBIDDEN_SHORT = ['ANY', 'BIT', 'BY', 'MAX', 'MIN', 'SET', 'TRUE', 'REAL', 'NULL', 'WITH', 'TAGS']


def forbidden(i: int, dialect: int, tail: int) -> bool:
    """
    requires: 0 <= i < len(FORBIDDEN_SHORT) and 0 <= dialect <= 1 and 0 <= tail <= 3
    """
    w = pick(FORBIDDEN_SHORT, i)
    d = pick(['smiV2', 'smiV1'], dialect)
    text = w + pick(['', ' ', '\n', ' x'], tail)
    r = one_token(d, 'INITIAL', 1, text)
    if d == 'smiV1' and w == 'MAX':
        return r[0] == 'tok' and r[1] == 'MAX'              # the SMIv1 dialect reserves MAX instead of forbidding it
    return r[0] == 'lexerr' and r[1] == 1


def conditions(prop, tier):
    q = tier == 'quick'
    t = 280 if q else 1700
    out = []
    # INITIAL is sharded by the class of the first character, the exclusive states by state
    first = [('upper', "'A' <= s[0] <= 'Z'"), ('lower', "'a' <= s[0] <= 'z'"), ('digit', "'0' <= s[0] <= '9'"),
             ('minus', "s[0] == '-'"), ('quote', "s[0] == '\"'"), ('apos', "s[0] == chr(39)"),
             ('space', "s[0] in ' \\t\\r\\n'"), ('punct', "s[0] in '[]{}():;,.|'"),
             ('other', "not ('A' <= s[0] <= 'Z' or 'a' <= s[0] <= 'z' or '0' <= s[0] <= '9' or s[0] in '-\"' or s[0] == chr(39) "
                       "or s[0] in ' \\t\\r\\n' or s[0] in '[]{}():;,.|')")]
    n0 = 3 if q else 4
    for tag, pre in first:
        out.append(dict(name='%s.lex.INITIAL.%s' % (prop, tag), fn='step', fixed=dict(st=0), timeout=t,
                        extra_pre=['1 <= len(s) <= %d' % n0, pre],
                        bounds='one token() call from INITIAL, symbolic line number, symbolic text of 1..%d characters starting with a %s character' % (n0, tag)))
    out.append(dict(name='%s.lex.INITIAL.empty' % prop, fn='step', fixed=dict(st=0, s=''), timeout=t, bounds='empty remaining input'))
    for st, n in ((1, 4 if q else 5), (2, 3 if q else 4), (3, 3 if q else 4), (4, 3 if q else 4)):
        out.append(dict(name='%s.lex.%s' % (prop, STATES[st]), fn='step', fixed=dict(st=st), timeout=t,
                        extra_pre=['len(s) <= %d' % n],
                        bounds='one token() call from state %s, symbolic line number, symbolic text of 0..%d characters' % (STATES[st], n)))
    if prop == 'C11':
        out.append(dict(name='C11.lex.forbidden', fn='forbidden', fixed={}, timeout=t,
                        bounds='every forbidden ASN.1 word of <=4 letters, followed by nothing / blank / newline / more text, smiV2 and smiV1 dialect'))
    return out


def selftests(prop):
    return [('step', dict(st=0, lineno0=3, s='ab\n')), ('step', dict(st=0, lineno0=1, s='"a\r\n"')),
            ('step', dict(st=1, lineno0=1, s='END')), ('step', dict(st=4, lineno0=9, s='x\r\ny')),
            ('step', dict(st=0, lineno0=1, s='-12')), ('step', dict(st=0, lineno0=1, s="'0'H")),
            ('forbidden', dict(i=0, dialect=0, tail=1))]
