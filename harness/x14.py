"""C14 (engine EXEC): the unmodified FileReader / ZipReader on REAL directories and REAL (nested) ZIP files - the same shapes as
the model-based conditions of harness/c14_readers.py, built on a temporary directory once per solver-explored shape.
This validates the file-system and archive models against the operating system and the zipfile module for every shape."""
import io
import os
import shutil
import tempfile
import time
import datetime
import zipfile

from harness import tok
from harness.c14_readers import NAMES, CONTENTS, pick
from pysmi.reader.base import AbstractReader
from pysmi import error

OK_NAMES = None


def _variants(name):
    return [v[1] for v in AbstractReader().getMibVariants(name)]


def real_fs(ask: int, top: int, sub: int, subsub: int, fi: int, ci: int, recursive: bool, index: int, noise: bool) -> bool:
    """
    requires: 0 <= ask < 4 and 0 <= top <= 2 and 0 <= sub <= 2 and 0 <= subsub <= 1 and 0 <= fi <= 6 and 0 <= ci < 5
    requires: 0 <= index <= 2
    """
    ask, top, sub, subsub = pick([0, 1, 2, 3], ask), pick([0, 1, 2], top), pick([0, 1, 2], sub), pick([0, 1], subsub)
    fi, ci, index = pick(list(range(7)), fi), pick(list(range(5)), ci), pick([0, 1, 2], index)
    recursive, noise = bool(recursive), bool(noise)
    with tok._untraced():
        return _real_fs(ask, top, sub, subsub, fi, ci, recursive, index, noise)


def _real_fs(ask, top, sub, subsub, fi, ci, recursive, index, noise):
    import importlib
    from pysmi.reader import localfile
    importlib.reload(localfile)                 # undo stubs installed by the model-based conditions in this process
    vars(localfile).pop('open', None)
    name = NAMES[ask]
    variants = _variants(name)
    fname = variants[(fi * 5) % len(variants)]
    content = CONTENTS[ci]
    mt = 1234567890
    root = tempfile.mkdtemp(prefix='verif-x14-')
    try:
        m_ = os.path.join(root, 'm')
        os.makedirs(os.path.join(m_, 'sub', 'deep'))
        places = []
        for where, flag in ((m_, top), (os.path.join(m_, 'sub'), sub), (os.path.join(m_, 'sub', 'deep'), subsub)):
            if flag == 1:
                p = os.path.join(where, fname)
                with open(p, 'wb') as f:
                    f.write(content)
                os.utime(p, (mt, mt))
                places.append(where)
            elif flag == 2:
                os.mkdir(os.path.join(where, fname))
        if noise:
            for d, n in ((m_, 'UNRELATED-MIB.txt'), (os.path.join(m_, 'sub'), name + '-EXTRA'), (m_, 'X' + name)):
                with open(os.path.join(d, n), 'wb') as f:
                    f.write(b'other')
        if index:
            with open(os.path.join(m_, '.index'), 'wb') as f:
                f.write(('%s indexed.dat\nOTHER other.txt\n' % name).encode())
            if index == 1:
                p = os.path.join(m_, 'indexed.dat')
                with open(p, 'wb') as f:
                    f.write(b'INDEXED')
                os.utime(p, (77, 77))
        rd = localfile.FileReader(m_, recursive=recursive, ignoreErrors=False)
        try:
            info, data = rd.getData(name)
            got = 'ok'
        except error.PySmiReaderFileNotFoundError:
            got = 'not-found'
        except error.PySmiError:
            got = 'error'
        except Exception:
            return False
    finally:
        shutil.rmtree(root, ignore_errors=True)
    searched = [m_, os.path.join(m_, 'sub'), os.path.join(m_, 'sub', 'deep')] if recursive else [m_]
    if index:
        if index == 1:
            return got == 'ok' and data == 'INDEXED' and info.mtime == 77 and info.file == 'indexed.dat' and info.name == name
        return got == 'not-found'
    hits = [p for p in places if p in searched]
    if not hits:
        return got == 'not-found'
    if got != 'ok':
        return False
    return data == content.decode('utf-8', 'ignore') and info.mtime == mt and info.file == fname \
        and info.path == 'file://' + os.path.join(hits[0], fname)


def real_zip(ask: int, depth: int, fi: int, ci: int, indir: bool, dup: bool, present: bool, twice: bool) -> bool:
    """
    requires: 0 <= ask < 4 and 0 <= depth <= 3 and 0 <= fi <= 6 and 0 <= ci < 5
    """
    ask, depth, fi, ci = pick([0, 1, 2, 3], ask), pick([0, 1, 2, 3], depth), pick(list(range(7)), fi), pick(list(range(5)), ci)
    indir, dup, present, twice = bool(indir), bool(dup), bool(present), bool(twice)
    with tok._untraced():
        return _real_zip(ask, depth, fi, ci, indir, dup, present, twice)


def _real_zip(ask, depth, fi, ci, indir, dup, present, twice=False):
    import importlib
    from pysmi.reader import zipreader
    importlib.reload(zipreader)
    vars(zipreader).pop('open', None)
    name = NAMES[ask]
    variants = _variants(name)
    fname = variants[(fi * 5) % len(variants)]
    content = CONTENTS[ci]
    dt = (2020, 1, 2, 3, 4, 6)
    buf = io.BytesIO()
    dt_old = (2010, 5, 6, 7, 8, 10)
    with zipfile.ZipFile(buf, 'w') as z:
        if present:
            if twice:
                # the SAME member name twice (what appending a newer file to an archive produces): an older entry first
                import warnings
                with warnings.catch_warnings():
                    warnings.simplefilter('ignore')
                    z.writestr(zipfile.ZipInfo((('mibs/' + fname) if indir else fname), dt_old), b'OLDER-ENTRY')
                    z.writestr(zipfile.ZipInfo((('mibs/' + fname) if indir else fname), dt), content)
            else:
                z.writestr(zipfile.ZipInfo((('mibs/' + fname) if indir else fname), dt), content)
        z.writestr(zipfile.ZipInfo('mibs/UNRELATED.txt', dt), b'other')
        if dup:
            z.writestr(zipfile.ZipInfo('other/UNRELATED.txt', dt), b'other2')
    data = buf.getvalue()
    for lvl in range(depth):
        buf = io.BytesIO()
        with zipfile.ZipFile(buf, 'w') as z:
            z.writestr(zipfile.ZipInfo('docs/readme', dt), b'r')
            z.writestr(zipfile.ZipInfo('nested/inner%d.zip' % lvl, dt), data)
        data = buf.getvalue()
    fd, path = tempfile.mkstemp(prefix='verif-x14-', suffix='.zip')
    try:
        os.write(fd, data)
        os.close(fd)
        try:
            info, text = zipreader.ZipReader(path, ignoreErrors=False).getData(name)
            got = 'ok'
        except error.PySmiReaderFileNotFoundError:
            got = 'not-found'
        except Exception:
            return False
    finally:
        os.unlink(path)
    if not present or content == b'':
        return got == 'not-found'
    if got != 'ok':
        return False
    want_mtime = time.mktime(datetime.datetime(*dt).timetuple())
    if twice and text == 'OLDER-ENTRY':
        # content and modification time must belong to ONE member
        return info.mtime == time.mktime(datetime.datetime(*dt_old).timetuple()) and info.file == fname
    return text == content.decode('utf-8', 'ignore') and info.mtime == want_mtime and info.file == fname


X = 'the unmodified reader on a real temporary directory / real ZIP file, concretely, once per solver-explored shape; '


def conditions(prop, tier):
    q = tier == 'quick'
    t = 280 if q else 1500
    out = []
    for ask in range(4):
        out.append(dict(name='C14.exec.FileReader.n%d' % ask, fn='real_fs', fixed=dict(ask=ask), timeout=t,
                        extra_pre=['fi <= 3 and ci <= 2'] if q else [],
                        bounds=X + 'module name %r: wanted file in the top / a sub / a sub-sub directory (or a directory of that name), under every '
                               'name variant, .index mapping present/valid/dangling, recursive or not, unrelated files' % NAMES[ask]))
        out.append(dict(name='C14.exec.ZipReader.n%d' % ask, fn='real_zip', fixed=dict(ask=ask), timeout=t,
                        extra_pre=['fi <= 3 and ci <= 2'] if q else [],
                        bounds=X + 'module name %r in a real ZIP nested 0-3 archives deep, at the top or in a directory, duplicate basenames, the same member name stored twice (older entry first), '
                               'absent or present, every name variant' % NAMES[ask]))
    return out


def selftests(prop):
    return [('real_fs', dict(ask=0, top=0, sub=1, subsub=1, fi=2, ci=1, recursive=True, index=0, noise=True)),
            ('real_zip', dict(ask=1, depth=2, fi=0, ci=2, indir=True, dup=True, present=True, twice=True))]
