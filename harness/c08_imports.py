"""C08, real symbol-table builder: every module named in an IMPORTS clause is reported in MibInfo.imported (this is what
compile() follows), also when all symbols taken from it are rewritten to their SMIv2 homes; the SMIv2 homes are reported too.

The compile() harness (hcompile) scripts the symbol-table builder: it takes the import graph as given. This condition
closes the gap between the MIB text and that graph: TOK + XH on the real parser and SymtableCodeGen.genCode/genImports."""
from harness import tok, smimodel as m
from harness.c16_smiv1 import FLAT, pick
from pysmi.codegen.base import AbstractCodeGen
from pysmi import error


def imported(i: int, alone: bool, extra: bool, two: bool) -> bool:
    """
    requires: 0 <= i < len(FLAT)
    """
    mod, sym = pick(FLAT, i)
    syms = [sym]
    if not alone:
        syms.append('somethingElse')                # a symbol that is not rewritten keeps the module's list non-empty
    imps = [(mod, syms)]
    if extra:
        imps.append(('OTHER-MIB', ['foo']))
    if two:
        imps.append(('SNMPv2-TC', ['DisplayString']))
    toks = m.module('M', imps, [m.value_decl('x', m.oid('iso', 3))], dialect='smiV1')
    try:
        trees = tok.parse_tokens(toks, 'smiV1')
        res = tok.compile_trees(trees, backend=None)
    except error.PySmiError:
        return False
    got = res.syminfo['M'].imported
    want = [mod] + [nm for nm, ns in AbstractCodeGen.convertImportv2[mod][sym]]
    if extra:
        want.append('OTHER-MIB')
    if two:
        want.append('SNMPv2-TC')
    for w in want:
        if w not in got:
            return False
    return len(set(got)) == len(got)


def conditions(prop, tier):
    t = 280 if tier == 'quick' else 1500
    return [dict(name='%s.imported-modules.a%d.e%d' % (prop, alone, extra), fn='imported', fixed=dict(alone=alone, extra=extra), timeout=t,
                 bounds='every (module, symbol) entry of the SMIv1->SMIv2 import map, imported alone or next to an unconverted symbol, with '
                        '0-2 further IMPORTS: MibInfo.imported names the module written in the text and the SMIv2 home(s)')
            for alone in (False, True) for extra in (False, True)]


def selftests(prop):
    return [('imported', dict(i=0, alone=True, extra=False, two=False)), ('imported', dict(i=40, alone=False, extra=True, two=True))]
