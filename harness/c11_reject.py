"""C11: malformed input is rejected with a located package error, never accepted.

* p_error (XH): the real error rule for `None` (end of input) and for a token with symbolic type index / value / line.
* token level (TOK + XH): well-formed sentences (harness/families.py) with ONE mutation at a symbolic position -
  truncation to a proper prefix, deletion, duplication, replacement by a token of symbolic type, insertion - go through
  the real LR driver. Outcome must be a non-empty module list or PySmiParserError whose line is that of a token at or
  after the mutation point; a proper prefix that ends inside a module is never accepted.
* SmiV2Parser.parse wrapper (XH) with a scripted yacc object.
* character level: harness/c02_lex.py (engine LEX).
"""
from harness import tok, families as f
from pysmi import error

LINE_MAX = 10 ** 9


def pick(table, k):
    for i in range(len(table)):
        if k == i:
            return table[i]
    return table[0]


def token_types(dialect='smiV2'):
    p = tok.get_parser(dialect)
    return sorted(p.tokens) + list(p.lexer.literals)


TYPES = {}


def types_for(dialect):
    if dialect not in TYPES:
        TYPES[dialect] = token_types(dialect)
    return TYPES[dialect]


def p_error_cond(has_tok: bool, ti: int, lineno: int, v: str) -> bool:
    """
    requires: 0 <= ti < 120 and 1 <= lineno
    """
    p = tok.get_parser('smiV2')
    types = types_for('smiV2')
    t = None
    if has_tok:
        t = tok.Tok(types[ti % len(types)], v, lineno)
    try:
        p.p_error(t)
    except error.PySmiParserError as e:
        if has_tok:
            return e.lineno == lineno
        return isinstance(e.lineno, int) and e.lineno >= 1
    except Exception:
        return False
    return False          # returning normally would let ply carry on: a syntax error must never be swallowed


def _sentence(fam):
    """(token list, index of the first token inside the module body)"""
    if fam == 0:
        s = f.f_object_type(3, True, True, True, True, 1, 2, True, False, 2, 0, 1, 2)
    elif fam == 1:
        s = f.f_module_identity(1, False)
    elif fam == 2:
        s = f.f_module_compliance(True, 1, 0, 1, 2, True)
    elif fam == 3:
        s = f.f_type(1, 2, True, True, 0, 5)
    elif fam == 4:
        s = f.f_notification_type(2, True)
    else:
        s = f.f_value(2, 5, 6)
    mod = f.module('ZQMOD', 1, 2, fam == 5, False, [s], s.dialect)
    return mod.toks, s.dialect


def _run(toks, dialect):
    try:
        trees = tok.parse_raw(toks, dialect)
    except error.PySmiParserError as e:
        return 'perr', e.lineno
    except error.PySmiError:
        return 'other-package-error', None
    except Exception as e:
        return 'exception', type(e).__name__
    return 'tree', trees


def truncate(fam: int, k: int) -> bool:
    """
    requires: 0 <= fam <= 5 and 1 <= k < 80
    """
    toks, dialect = _sentence(fam)
    if k >= len(toks):
        return True
    kind, val = _run(toks[:k], dialect)
    # a proper, non-empty prefix of a one-module file always ends inside the module: it must be an error
    return kind == 'perr'


def mutate(fam: int, op: int, k: int, ti: int) -> bool:
    """
    requires: 0 <= fam <= 5 and 0 <= op <= 3 and 0 <= k < 80 and 0 <= ti < 120
    """
    toks, dialect = _sentence(fam)
    n = len(toks)
    if k >= n:
        return True
    types = types_for(dialect)
    if ti >= len(types):
        return True
    if op == 0:
        mut = toks[:k] + toks[k + 1:]                       # deletion
    elif op == 1:
        mut = toks[:k + 1] + [toks[k]] + toks[k + 1:]       # duplication
    elif op == 2:
        mut = toks[:k] + [(types[ti], 'zqx')] + toks[k + 1:]  # replacement by a token of another type
    else:
        mut = toks[:k] + [(types[ti], 'zqx')] + toks[k:]    # insertion
    kind, val = _run(mut, dialect)
    if kind == 'perr':
        # located: the line (= 1-based token position here) of a token not before the mutation point
        if val is None:
            return False
        return k + 1 <= val <= len(mut) or (k >= len(mut) and val >= 1)
    if kind == 'tree':
        # accepted: then it is a complete file (a non-empty module list), never None / an empty result
        return val is not None and val[0] == 'mibFile' and bool(val[1])
    return False


class _Yacc(object):
    def __init__(self, outcome, lexer_obj, advance, state):
        self.outcome = outcome
        self.lexer_obj = lexer_obj
        self.advance = advance
        self.state = state

    def parse(self, data, lexer=None, **kw):
        # what a real parse does to the lexer it is given: lines advance, a state may be left entered
        lexer.lineno += self.advance
        lexer.begin(self.state)
        if self.outcome == 0:
            return None
        if self.outcome == 1:
            return ('mibFile', None)
        if self.outcome == 2:
            return ('mibFile', [('M', None, None, None)])
        if self.outcome == 3:
            raise error.PySmiParserError('bad', lineno=lexer.lineno)
        raise error.PySmiLexerError('bad', lineno=lexer.lineno)


def parse_wrapper(outcome: int, advance: int, st: int) -> bool:
    """
    requires: 0 <= outcome <= 4 and 0 <= advance and 0 <= st <= 4
    """
    from pysmi.parser.smi import parserFactory
    p = PARSER_FOR_WRAPPER[0]
    if p is None:
        p = PARSER_FOR_WRAPPER[0] = parserFactory()()
    real_yacc = p.parser
    p.parser = _Yacc(outcome, p.lexer, advance, pick(['INITIAL', 'macro', 'choice', 'exports', 'comment'], st))
    try:
        try:
            r = p.parse('text')
            kind = 'ok'
        except error.PySmiLexerError:
            r = None
            kind = 'package-error'
        except Exception:
            return False
    finally:
        p.parser = real_yacc
    if outcome <= 1:
        if not (kind == 'ok' and r == []):
            return False
    elif outcome == 2:
        if not (kind == 'ok' and len(r) == 1):
            return False
    else:
        if kind != 'package-error':
            return False
    # C12: whatever happened, the lexer is back in its initial condition for the next text
    return p.lexer.lexer.lineno == 1 and p.lexer.lexer.lexstate == 'INITIAL'


PARSER_FOR_WRAPPER = [None]


def huge_number(ndigits: int, neg: bool, dialect: int) -> bool:
    """
    requires: 1 <= ndigits <= 6000 and 0 <= dialect <= 2
    """
    # regression witness (concrete): the interpreter's own limit on decimal conversions must not leak out of the lexer
    text = 'M DEFINITIONS ::= BEGIN\nx OBJECT IDENTIFIER ::= { iso 3 }\ny OBJECT-TYPE SYNTAX Integer32 (%s%s)\n' % ('-' if neg else '', '9' * ndigits)
    try:
        tok.parse_text(text, ['smiV2', 'smiV1', 'smiV1Relaxed'][dialect])
    except error.PySmiParserError:      # (a subclass of the lexer error: test it first)
        return ndigits <= 20            # the number was tokenised; the sentence is incomplete on purpose
    except error.PySmiLexerError as e:
        return ndigits > 19 and e.lineno == 3
    except Exception:
        return False
    return False


def conditions(prop, tier):
    q = tier == 'quick'
    t = 280 if q else 1700
    out = []
    if prop == 'C02':
        # "unchanged by anything that is not a token" includes whatever the same parser object lexed before: the lexer must be
        # back in its initial state (line 1, INITIAL) whenever parse() starts
        return [dict(name='C02.parser-fresh-lexer', fn='parse_wrapper', fixed={}, timeout=t,
                     bounds='SmiV2Parser.parse with a scripted yacc object: whatever the previous text left behind (any of the 5 lexer states, '
                            'line advanced by an unbounded amount, success or error), the next parse starts from a fresh lexer')]
    if prop == 'C12':
        return [dict(name='C12.parser-reset', fn='parse_wrapper', fixed={}, timeout=t,
                     bounds='SmiV2Parser.parse with a scripted yacc object: result None/empty/modules/parser error/lexer error, lexer line advanced by '
                            'an unbounded amount and left in any of the 5 lexer states')]
    out.append(dict(name='C11.p_error', fn='p_error_cond', fixed=dict(v='zqv'), timeout=t,
                    bounds='p_error(None) and p_error(token) with token type by symbolic index over all token names and literals, unbounded symbolic line (the value only feeds the message text)'))
    out.append(dict(name='C11.t_NUMBER', module='harness.c05_types', fn='num_token', fixed={}, timeout=t,
                    bounds='real t_NUMBER action on a symbolic int in -(2^64+2)..2^64+2: numbers beyond 64 bits (either sign) are rejected with the '
                           'located lexer error, everything else is tokenised with its value'))
    out.append(dict(name='C11.parse-wrapper', fn='parse_wrapper', fixed={}, timeout=t,
                    bounds='SmiV2Parser.parse with a scripted yacc object (5 outcomes), lexer line advanced by an unbounded amount, any lexer state'))
    for fam in range(6):
        out.append(dict(name='C11.truncate.fam%d' % fam, fn='truncate', fixed=dict(fam=fam), timeout=t,
                        bounds='every proper non-empty prefix (symbolic cut) of the rich sentence of family %d' % fam))
    fams = (0, 3, 5) if q else range(6)
    for fam in fams:
        for op in (0, 1):
            out.append(dict(name='C11.mutate.fam%d.%s' % (fam, ('delete', 'duplicate')[op]), fn='mutate', fixed=dict(fam=fam, op=op, ti=0), timeout=t,
                            bounds='one token %s at a symbolic position of the rich sentence of family %d' % (('deleted', 'duplicated')[op], fam)))
        for op in (2, 3):
            lo_hi = [(0, 120)] if not q else [(0, 120)]
            for lo, hi in lo_hi:
              for half in ((0, 1) if q else (None,)):
                out.append(dict(name='C11.mutate.fam%d.%s%s' % (fam, ('replace', 'insert')[op - 2], '' if half is None else '.p%d' % half), fn='mutate', fixed=dict(fam=fam, op=op), timeout=t,
                                extra_pre=['ti % 9 == fam', 'k % 2 == ' + str(half)] if q else [],
                                bounds='one token %s at a symbolic position of the rich sentence of family %d, the new token\'s type chosen by symbolic '
                                       'index over all token names and literals%s' % (('replaced', 'inserted')[op - 2], fam, ' (quick: every 9th type)' if q else '')))
    return out


def selftests(prop):
    if prop == 'C02':
        return [('parse_wrapper', dict(outcome=2, advance=0, st=0))]
    return [('p_error_cond', dict(has_tok=True, ti=5, lineno=7, v='x')),
            ('truncate', dict(fam=5, k=200)), ('mutate', dict(fam=0, op=0, k=200, ti=0)),
            ('mutate', dict(fam=0, op=2, k=3, ti=4)), ('parse_wrapper', dict(outcome=2, advance=0, st=0)),
            ('huge_number', dict(ndigits=4301, neg=False, dialect=0)), ('huge_number', dict(ndigits=5, neg=True, dialect=1))]
