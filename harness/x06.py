"""C06, pysnmp side (engine EXEC): node classes, setIndexNames, registerAugmentions and setObjects of the loaded pysnmp
module agree with the JSON document for every solver-explored table / list / compliance shape."""
from harness.c06_refs import *          # noqa: F401,F403
from harness import c06_refs as _b, execpy

execpy.install(globals(), _b, ['table', 'augments', 'object_lists', 'compliance'], ('kind', 'oid', 'access', 'basetype', 'refs'))

X = 'the real template + compile() + pysnmp executed concretely on every solver-explored shape; '


def aug_order(first: bool, hy: bool, order: int) -> bool:
    """
    requires: 0 <= order < 6
    """
    # an augmenting row of the SAME module whose OID sorts before / after the row it augments (objects are emitted in OID
    # order), the augmented row's name plain or hyphenated, three declaration orders
    from harness import tok, smimodel as m
    from harness.tok import seq
    import itertools
    base_arc, aug_arc = (9, 5) if first else (5, 9)
    bname = 'b-Entry' if hy else 'bEntry'
    parts = [
        m.object_type('bTable', seq('SEQUENCE OF BEntry'), m.oid('iso', base_arc), access='not-accessible', descr=m.text('d'))
        + m.object_type(bname, seq('BEntry'), m.oid('bTable', 1), access='not-accessible', descr=m.text('d'), index=[(False, 'b1')])
        + m.sequence_type('BEntry', [('b1', 'Integer32')])
        + m.object_type('b1', seq('Integer32'), m.oid(bname, 1), descr=m.text('d')),
        m.object_type('aTable', seq('SEQUENCE OF AEntry'), m.oid('iso', aug_arc), access='not-accessible', descr=m.text('d'))
        + m.object_type('aEntry', seq('AEntry'), m.oid('aTable', 1), access='not-accessible', descr=m.text('d'), augments=bname)
        + m.sequence_type('AEntry', [('a1', 'Integer32')])
        + m.object_type('a1', seq('Integer32'), m.oid('aEntry', 1), descr=m.text('d')),
        m.object_type('sc', seq('Integer32'), m.oid('iso', 7), descr=m.text('d'))]
    body = [parts[i] for i in pick(list(itertools.permutations(range(3))), order)]
    try:
        tok.compile_trees(tok.parse_tokens(m.module('M', [], body)), backend='json')
    except error.PySmiError:
        return False
    return True


x_aug_order = execpy.wrap(aug_order, ('kind', 'oid', 'access', 'basetype', 'refs'), 'x_aug_order')
xs_aug_order = execpy.wrap(aug_order, ('kind', 'oid', 'access', 'basetype', 'refs'), 'xs_aug_order', strict=True)


def conditions(prop, tier):
    q = tier == 'quick'
    t = 280 if q else 1500
    out = []
    T = X + 'table with %d column(s), %d index entr(y/ies) (IMPLIED / imported / hyphenated), SEQUENCE type present or not, declaration orders'
    if q:
        out.append(dict(name='C06.exec.table.c2.i1', fn='x_table', fixed=dict(ncols=2, nidx=1, x1=0, x2=0, im1=False, im2=False, has_seq=True),
                        extra_pre=['order < 2'], timeout=t, bounds=T % (2, 1) + ' (quick: SEQUENCE present, 2 orders)'))
        out.append(dict(name='C06.exec.table.c2.i2', fn='x_table', fixed=dict(ncols=2, nidx=2, x2=0, im0=False, im2=False, has_seq=True, hy=False, order=0),
                        extra_pre=['x1 == 1 or x1 == 3'], timeout=t, bounds=T % (2, 2) + ' (quick: second index own column or imported)'))
        out.append(dict(name='C06.exec.table.c1.noseq', fn='x_table', fixed=dict(ncols=1, nidx=1, x1=0, x2=0, im0=False, im1=False, im2=False, has_seq=False, hy=False),
                        extra_pre=['order < 4', 'x0 == 0 or x0 == 3'], timeout=t, bounds=T % (1, 1) + ' (quick: no SEQUENCE type)'))
    else:
        for ncols in (1, 2, 3):
            for nidx in (1, 2, 3):
                for has_seq in (False, True):
                    out.append(dict(name='C06.exec.table.c%d.i%d.s%d' % (ncols, nidx, has_seq), fn='x_table',
                                    fixed=dict(ncols=ncols, nidx=nidx, has_seq=has_seq),
                                    extra_pre=['order < 3'] + (['x2 == 0 and not im2'] if nidx < 3 else ['x2 <= 3 and not im2 and not im1']) + (['x1 == 0 and not im1'] if nidx < 2 else []),
                                    timeout=t, bounds=T % (ncols, nidx)))
    out.append(dict(name='C06.exec.augments', fn='x_augments', fixed={}, timeout=t, bounds=X + 'AUGMENTS of a local / imported row, declaration orders'))
    out.append(dict(name='C06.exec.augments-oid-order', fn='x_aug_order', fixed={}, timeout=t,
                    bounds=X + 'augmenting row whose OID sorts before / after the augmented row of the same module, plain / hyphenated row name, declaration orders'))
    for kind in range(4):
        out.append(dict(name='C06.exec.object-lists.k%d' % kind, fn='x_object_lists', fixed=dict(kind=kind),
                        extra_pre=['n <= 2 and p < 2'] if q else [], timeout=t,
                        bounds=X + 'OBJECTS / NOTIFICATIONS / VARIABLES lists of 0-%d local and imported objects' % (2 if q else 3)))
    for nmod in ((1,) if q else (1, 2)):
        out.append(dict(name='C06.exec.compliance.m%d' % nmod, fn='x_compliance', fixed=dict(nmod=nmod),
                        extra_pre=['ncl <= 2'] if q else [], timeout=t,
                        bounds=X + 'MODULE-COMPLIANCE with MANDATORY-GROUPS and GROUP/OBJECT clauses'))
    return out


def selftests(prop):
    return [('x_aug_order', dict(first=True, hy=True, order=0)),
            ('x_table', dict(ncols=2, nidx=2, x0=0, x1=3, x2=0, im0=False, im1=True, im2=False, has_seq=True, order=0, hy=False)),
            ('x_compliance', dict(nmod=2, named=False, nmand=2, c0=0, c1=0, c2=0, ncl=2))]
