"""C07, second part: a semantic defect in a MIB leaves the real symbol-table builder / code generators ONLY as the
package's error type (compile() catches nothing else, so any other exception would abort the whole call).

TOK + XH: modules carrying one defect of symbolic kind at a symbolic position among healthy declarations go through
the real parser, SymtableCodeGen and JsonCodeGen / PySnmpCodeGen (render captured).
This also justifies the scripted-component model of harness/hcompile.py ("components fail only with PySmiError")
for defects in MIBs.
"""
from harness import tok, smimodel as m
from harness.tok import seq, LC, QS
from pysmi import error

DEFECTS = ['duplicate symbol', 'undefined OID parent', 'OID parent imported from a module that was not found',
           'OID parent imported from a module that lacks it', 'undefined SYNTAX type', 'type imported from a missing module (+DEFVAL)',
           'DEFVAL names an unknown bit', 'DEFVAL names an unknown enumeration label', 'DEFVAL names an unknown OID label',
           'two MODULE-IDENTITY clauses', 'INDEX names an undefined object', 'AUGMENTS names an undefined row',
           'string DEFVAL on an integer object', 'empty hex literal as range bound', 'number DEFVAL on an OBJECT IDENTIFIER object',
           'bit-list DEFVAL on an integer object', 'malformed REVISION time', 'row without table / SEQUENCE', 'SEQUENCE OF undefined row type',
           'duplicate symbol of different kinds', 'import of the same symbol from two modules',
           'DEFVAL names an OID label imported from a module that lacks it', 'DEFVAL names an OID label imported from a module that was not found',
           'INDEX object imported from a module that lacks it', 'AUGMENTS row imported from a module that was not found',
           'OBJECTS list names an undefined object', 'SYNTAX type imported from a module that lacks it (+ enum DEFVAL)',
           'circular OID definition (two nodes)', 'OID node naming itself as parent', 'circular type definition']


def pick(table, k):
    for i in range(len(table)):
        if k == i:
            return table[i]
    return table[0]


def _bad(kind):
    """(imports, declarations carrying the defect)"""
    imps = []
    if kind == 0:
        d = [m.value_decl('dup', m.oid('iso', 5)), m.value_decl('dup', m.oid('iso', 6))]
    elif kind == 1:
        d = [m.value_decl('orphan', m.oid('nowhere', 1))]
    elif kind == 2:
        imps = [('MISSING-MIB', ['farRoot'])]
        d = [m.value_decl('child', m.oid('farRoot', 1))]
    elif kind == 3:
        imps = [('OTHER-MIB', ['notThere'])]
        d = [m.value_decl('child', m.oid('notThere', 1))]
    elif kind == 4:
        d = [m.object_type('x', seq('NoSuchType'), m.oid('iso', 5), descr=m.text('d'))]
    elif kind == 5:
        imps = [('MISSING-MIB', ['FarType'])]
        d = [m.object_type('x', seq('FarType'), m.oid('iso', 5), descr=m.text('d'), defval=[tok.number_token(1)])]
    elif kind == 6:
        d = [m.object_type('x', seq('BITS { b0 ( 0 ) }'), m.oid('iso', 5), descr=m.text('d'),
                           defval=[('{', '{'), LC('nobit'), ('}', '}')])]
    elif kind == 7:
        d = [m.object_type('x', seq('INTEGER { up ( 1 ) }'), m.oid('iso', 5), descr=m.text('d'), defval=[LC('sideways')])]
    elif kind == 8:
        d = [m.object_type('x', seq('OBJECT IDENTIFIER'), m.oid('iso', 5), descr=m.text('d'), defval=[LC('nolabel')])]
    elif kind == 9:
        d = [m.module_identity('mi1', m.oid('iso', 5)), m.module_identity('mi2', m.oid('iso', 6))]
    elif kind == 10:
        d = [m.object_type('tTable', seq('SEQUENCE OF TEntry'), m.oid('iso', 5), access='not-accessible', descr=m.text('d')),
             m.object_type('tEntry', seq('TEntry'), m.oid('tTable', 1), access='not-accessible', descr=m.text('d'), index=[(False, 'ghost')]),
             m.sequence_type('TEntry', [('c1', 'Integer32')])]
    elif kind == 11:
        d = [m.object_type('aTable', seq('SEQUENCE OF AEntry'), m.oid('iso', 5), access='not-accessible', descr=m.text('d')),
             m.object_type('aEntry', seq('AEntry'), m.oid('aTable', 1), access='not-accessible', descr=m.text('d'), augments='ghostEntry'),
             m.sequence_type('AEntry', [('c1', 'Integer32')])]
    elif kind == 12:
        d = [m.object_type('x', seq('Integer32'), m.oid('iso', 5), descr=m.text('d'), defval=[QS('"text"')])]
    elif kind == 13:
        d = [m.object_type('x', seq('Integer32 (', [('HEX_STRING', "''H")], ')'), m.oid('iso', 5), descr=m.text('d'))]
    elif kind == 14:
        d = [m.object_type('x', seq('OBJECT IDENTIFIER'), m.oid('iso', 5), descr=m.text('d'), defval=[tok.number_token(3)])]
    elif kind == 15:
        d = [m.object_type('x', seq('Integer32'), m.oid('iso', 5), descr=m.text('d'), defval=[('{', '{'), LC('b0'), ('}', '}')])]
    elif kind == 16:
        d = [m.module_identity('mi', m.oid('iso', 5), last='"not-a-date"', revisions=[('"99"', m.text('r'))])]
    elif kind == 17:
        d = [m.object_type('lonely', seq('LonelyEntry'), m.oid('iso', 5), access='not-accessible', descr=m.text('d'), index=[(False, 'c1')])]
    elif kind == 18:
        d = [m.object_type('tTable', seq('SEQUENCE OF GhostEntry'), m.oid('iso', 5), access='not-accessible', descr=m.text('d'))]
    elif kind == 19:
        d = [m.value_decl('dup', m.oid('iso', 5)), m.object_type('dup', seq('Integer32'), m.oid('iso', 6), descr=m.text('d'))]
    elif kind == 20:
        imps = [('OTHER-MIB', ['otherRoot']), ('THIRD-MIB', ['otherRoot'])]
        d = [m.value_decl('child', m.oid('otherRoot', 1))]
    elif kind == 21:
        imps = [('OTHER-MIB', ['notThere'])]
        d = [m.object_type('x', seq('OBJECT IDENTIFIER'), m.oid('iso', 5), descr=m.text('d'), defval=[LC('notThere')])]
    elif kind == 22:
        imps = [('MISSING-MIB', ['farLabel'])]
        d = [m.object_type('x', seq('OBJECT IDENTIFIER'), m.oid('iso', 5), descr=m.text('d'), defval=[LC('farLabel')])]
    elif kind == 23:
        imps = [('OTHER-MIB', ['notThere'])]
        d = [m.object_type('tTable', seq('SEQUENCE OF TEntry'), m.oid('iso', 5), access='not-accessible', descr=m.text('d')),
             m.object_type('tEntry', seq('TEntry'), m.oid('tTable', 1), access='not-accessible', descr=m.text('d'), index=[(False, 'notThere')]),
             m.sequence_type('TEntry', [('c1', 'Integer32')])]
    elif kind == 24:
        imps = [('MISSING-MIB', ['farEntry'])]
        d = [m.object_type('aTable', seq('SEQUENCE OF AEntry'), m.oid('iso', 5), access='not-accessible', descr=m.text('d')),
             m.object_type('aEntry', seq('AEntry'), m.oid('aTable', 1), access='not-accessible', descr=m.text('d'), augments='farEntry'),
             m.sequence_type('AEntry', [('c1', 'Integer32')])]
    elif kind == 25:
        d = [m.object_group('grp', m.oid('iso', 5), ['ghostObj'])]
    elif kind == 26:
        imps = [('OTHER-MIB', ['NotThereType'])]
        d = [m.object_type('x', seq('NotThereType'), m.oid('iso', 5), descr=m.text('d'), defval=[LC('up')])]
    elif kind == 27:
        d = [m.value_decl('cycA', m.oid('cycB', 1)), m.value_decl('cycB', m.oid('cycA', 1))]
    elif kind == 28:
        d = [m.value_decl('selfish', m.oid('selfish', 1))]
    else:
        d = [m.type_decl('CycT', seq('CycU')), m.type_decl('CycU', seq('CycT')),
             m.object_type('x', seq('CycT'), m.oid('iso', 5), descr=m.text('d'), defval=[tok.number_token(1)])]
    return imps, d


def other_module():
    return m.module('OTHER-MIB', [], [m.value_decl('otherRoot', m.oid('iso', 9))])


def semantic(kind: int, pos: int, backend: int, genTexts: bool) -> bool:
    """
    requires: 0 <= kind < len(DEFECTS) and 0 <= pos <= 2 and 0 <= backend <= 1
    """
    imps, bad = _bad(kind)
    good = [m.value_decl('okRoot', m.oid('iso', 3)), m.object_type('okObj', seq('Integer32'), m.oid('okRoot', 1), descr=m.text('d'))]
    body = good[:pos] + bad + good[pos:]
    toks = m.module('BAD-MIB', imps, body)
    try:
        trees = tok.parse_tokens(toks)
    except error.PySmiError:
        return False                        # every sentence here is grammatical
    try:
        tok.compile_trees(trees, backend='pysnmp' if backend else 'json', genTexts=genTexts,
                          extra_symtab=tok.const_symtab('c07-other', other_module))
    except error.PySmiError:
        return True                         # rejected with the package's error type: contained by compile()
    except Exception:
        return False                        # anything else would abort the whole compile() call
    return True                             # (tolerated defects are fine too)


def conditions(prop, tier):
    t = 280 if tier == 'quick' else 1500
    return [dict(name='C07.semantic-defects.%s' % ('pysnmp' if be else 'json'), fn='semantic', fixed=dict(backend=be), timeout=t,
                 bounds='%d kinds of semantic defect, each at the first/middle/last position among healthy declarations, genTexts on/off: the real '
                        'symbol-table builder and code generator raise nothing but the package error' % len(DEFECTS)) for be in (0, 1)]


def selftests(prop):
    return [('semantic', dict(kind=0, pos=1, backend=0, genTexts=False)), ('semantic', dict(kind=2, pos=0, backend=1, genTexts=True))]
