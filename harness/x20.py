"""C20 (engine EXEC, whole tool): the real scripts/mibdump.py and scripts/mibcopy.py run in-process (runpy, real option
parsing, real readers / parser / code generators / writers, a real temporary directory) once per solver-explored shape of the
on-disk module set and option combination; exit status, report and destination directory are compared with the ground
truth of the shape.

Only the shape is symbolic (module health, import relation, request set, options, visiting order, revisions from a pool);
per path everything is concrete. Network borrowers are disabled by giving an explicit (empty, local) --mib-borrower.
"""
import io
import os
import runpy
import shutil
import sys
import tempfile

from harness import tok

REPO = os.environ.get('VERIF_REPO', '/repo')

BASE = '%s DEFINITIONS ::= BEGIN\n%sStub OBJECT IDENTIFIER ::= { iso %d }\nEND\n'
STUBS = {'SNMPv2-SMI': BASE % ('SNMPv2-SMI', 'smi', 101), 'SNMPv2-TC': BASE % ('SNMPv2-TC', 'tc', 102),
         'SNMPv2-CONF': BASE % ('SNMPv2-CONF', 'conf', 103)}


def pick(table, k):
    for i in range(len(table)):
        if k == i:
            return table[i]
    return table[0]


def _run_script(script, argv):
    """run a script of the repository in this process; returns (exit status, stderr text)"""
    old = (sys.argv, sys.stderr, sys.stdout)
    sys.argv = [script] + argv
    sys.stderr = io.StringIO()
    sys.stdout = io.StringIO()
    try:
        try:
            runpy.run_path(os.path.join(REPO, 'scripts', script), run_name='__main__')
            rc = 0
        except SystemExit as e:
            rc = e.code if isinstance(e.code, int) else (0 if e.code is None else 1)
        return rc, sys.stderr.getvalue()
    finally:
        sys.argv, sys.stderr, sys.stdout = old


# ---- mibdump ------------------------------------------------------------------------------------------------------------

def _mib_a(kind, imp):
    if kind == 1:
        return 'A-MIB DEFINITIONS ::= BEGIN\naRoot OBJECT IDENTIFIER ::= { iso 3 \nEND\n'            # syntax error
    if kind == 2:
        return 'A-MIB DEFINITIONS ::= BEGIN\naRoot OBJECT IDENTIFIER ::= { noSuchParent 3 }\nEND\n'  # semantic error
    if imp:
        return 'A-MIB DEFINITIONS ::= BEGIN\nIMPORTS bRoot FROM B-MIB;\naRoot OBJECT IDENTIFIER ::= { bRoot 1 }\nEND\n'
    return 'A-MIB DEFINITIONS ::= BEGIN\naRoot OBJECT IDENTIFIER ::= { iso 3 }\nEND\n'


def _mib_b(kind):
    if kind == 1:
        return 'B-MIB DEFINITIONS ::= BEGIN\nbRoot OBJECT IDENTIFIER ::= iso 4 }\nEND\n'
    if kind == 2:
        return 'B-MIB DEFINITIONS ::= BEGIN\nbRoot OBJECT IDENTIFIER ::= { iso 4 }\nbRoot OBJECT IDENTIFIER ::= { iso 5 }\nEND\n'
    return 'B-MIB DEFINITIONS ::= BEGIN\nbRoot OBJECT IDENTIFIER ::= { iso 4 }\nEND\n'


CATS = (('reated/updated MIBs:', 'created'), ('borrowed:', 'borrowed'), ('Up to date MIBs:', 'untouched'),
        ('Missing source MIBs:', 'missing'), ('Ignored MIBs:', 'unprocessed'), ('Failed MIBs:', 'failed'))


def _report(err):
    out = {}
    for line in err.splitlines():
        for key, cat in CATS:
            if key in line:
                names = line.split(key, 1)[1].strip()
                mods = []
                for part in names.split(', '):
                    part = part.strip()
                    if part:
                        mods.append(part.split(' ')[0])
                out[cat] = mods
    return out


def mibdump(akind: int, bkind: int, imp: bool, req_b: bool, fmt: int, dry: bool, nowrite: bool, ignore: bool, nodeps: bool,
            pycbad: bool, bor: bool) -> bool:
    """
    requires: 0 <= akind <= 2 and 0 <= bkind <= 3 and 0 <= fmt <= 2
    requires: fmt == 1 or not pycbad
    requires: fmt != 2 or not bor
    """
    akind, bkind, fmt = pick([0, 1, 2], akind), pick([0, 1, 2, 3], bkind), pick([0, 1, 2], fmt)
    imp, req_b, dry, nowrite, ignore, nodeps, pycbad = bool(imp), bool(req_b), bool(dry), bool(nowrite), bool(ignore), bool(nodeps), bool(pycbad)
    bor = bool(bor)
    with tok._untraced():
        return _mibdump(akind, bkind, imp, req_b, fmt, dry, nowrite, ignore, nodeps, pycbad, bor)


BORROWED_TEXT = ('{"borrowed": "C-MIB"}\n', 'borrowed = "C-MIB"\n', 'borrowed\n')


def _mibdump(akind, bkind, imp, req_b, fmt, dry, nowrite, ignore, nodeps, pycbad=False, bor=False):
    top = tempfile.mkdtemp(prefix='verif-x20-')
    try:
        src, dst, bor_dir = os.path.join(top, 'src'), os.path.join(top, 'dst'), os.path.join(top, 'bor')
        os.mkdir(src), os.mkdir(dst), os.mkdir(bor_dir)
        for n, t in STUBS.items():
            open(os.path.join(src, n), 'w').write(t)
        open(os.path.join(src, 'A-MIB'), 'w').write(_mib_a(akind, imp))
        if bkind != 3:
            open(os.path.join(src, 'B-MIB'), 'w').write(_mib_b(bkind))
        argv = ['--mib-source=file://' + src, '--mib-borrower=' + bor_dir, '--destination-directory=' + dst,
                '--destination-format=' + ('json', 'pysnmp', 'null')[fmt]]
        if pycbad:
            # byte-compilation of every stored module crashes: the cache directory's name is taken by a regular file
            open(os.path.join(dst, '__pycache__'), 'w').close()
        else:
            argv.append('--no-python-compile')
        for flag, on in (('--dry-run', dry), ('--no-mib-writes', nowrite), ('--ignore-errors', ignore), ('--no-dependencies', nodeps)):
            if on:
                argv.append(flag)
        argv.append('A-MIB')
        if req_b:
            argv.append('B-MIB')
        if bor:
            # a third requested module without ASN.1 source, of which the borrower directory holds a pre-transformed copy
            with open(os.path.join(bor_dir, 'C-MIB' + ('.json', '.py', '')[fmt]), 'w') as f:
                f.write(BORROWED_TEXT[fmt])
            argv.append('C-MIB')
        rc, err = _run_script('mibdump.py', argv)
        files = sorted(f for f in os.listdir(dst) if os.path.isfile(os.path.join(dst, f)) and f != '__pycache__')
        contents = dict((f, open(os.path.join(dst, f)).read()) for f in files)
    finally:
        shutil.rmtree(top, ignore_errors=True)
    rep = _report(err)
    if len(rep) != len(CATS):
        return False                                # the report always has its six categories
    # ---- ground truth of the shape
    a_parses = akind == 0
    b_in = req_b or (a_parses and imp)              # B is requested, or named in the IMPORTS of a module that was analysed
    bad = {}
    if akind != 0:
        bad['A-MIB'] = 'failed'
    if b_in and bkind in (1, 2):
        bad['B-MIB'] = 'failed'
    if b_in and bkind == 3:
        bad['B-MIB'] = 'missing'
    if a_parses and imp and bkind != 0 and fmt != 2:
        bad['A-MIB'] = 'failed'                     # its parent OID lives in a module that cannot be used (the null generator resolves nothing)
    closure = ['A-MIB'] + (['B-MIB'] if b_in else []) + (['C-MIB'] if bor else [])
    if pycbad and not (dry or nowrite):
        # every module that gets as far as the writer fails there (and is removed again): reported failed, not on disk
        gate_open = (not bad) or ignore
        for mod in closure:
            if mod not in bad and gate_open and (mod == 'A-MIB' or mod == 'C-MIB' or req_b or not nodeps):
                bad[mod] = 'failed'                 # (the borrowed copy goes through the same writer and fails there too)
        if files:
            return False
    # (1) exit status: 0 only if no requested or dependent module is missing or failed
    if (rc == 0) != (not bad):
        return False
    if rc not in (0, 79):
        return False
    # (2) every module of the closure is listed exactly once, under the category of its fate
    for mod in closure:
        cats = [c for c in rep if mod in rep[c]]
        if len(cats) != 1:
            return False
        if mod in bad and cats[0] != bad[mod]:
            return False
        if mod not in bad and cats[0] in ('missing', 'failed'):
            return False
    # (3) the files in the destination directory are exactly the modules reported created or borrowed
    ext = ('.json', '.py', '')[fmt]
    reported = sorted(m_ + ext for m_ in rep['created'] + rep['borrowed'])
    if dry or nowrite or fmt == 2:
        if files:
            return False
    elif files != reported:
        return False
    # (3b) a borrowed module is written verbatim and reported borrowed exactly when it is on disk (or would be: dry run)
    if bor:
        ext_ = ('.json', '.py', '')[fmt]
        on_disk = ('C-MIB' + ext_) in files
        listed = 'C-MIB' in rep['borrowed']
        others_bad = [m_ for m_ in bad if m_ != 'C-MIB']
        gate_closed = bool(others_bad) and not ignore
        if 'C-MIB' in bad:
            if listed or on_disk:
                return False                        # its own write failed: neither reported borrowed nor on disk
        elif gate_closed and (listed or on_disk):
            return False
        elif not gate_closed and not listed:
            return False
        if on_disk and contents['C-MIB' + ext_].replace('\r', '') .find(BORROWED_TEXT[fmt].strip()) < 0:
            return False
    # (4) nothing is written when something failed, unless errors are ignored; with errors ignored the healthy ones are
    if bad and not ignore and files:
        return False
    if not (dry or nowrite or fmt == 2):
        for mod in closure:
            healthy = mod not in bad
            wanted = healthy and (not bad or ignore) and (mod == 'A-MIB' or req_b or not nodeps)
            if wanted and mod + ext not in files:
                return False
            if not healthy and mod + ext in files:
                return False
    return True


# ---- mibcopy ------------------------------------------------------------------------------------------------------------

REVS = ['200001010000Z', '200506070000Z', '201012310000Z', '9912310000Z']      # last one: 2-digit year form (1999)
ORDER = {'9912310000Z': 0, '200001010000Z': 1, '200506070000Z': 2, '201012310000Z': 3}


def _mib_rev(name, rev, tag):
    body = '%s DEFINITIONS ::= BEGIN\nIMPORTS MODULE-IDENTITY FROM SNMPv2-SMI;\n' % name
    if rev is not None:
        body += ('%sId MODULE-IDENTITY LAST-UPDATED "%s" ORGANIZATION "o" CONTACT-INFO "c" DESCRIPTION "%s"\n'
                 '  REVISION "%s" DESCRIPTION "r" ::= { iso 3 }\n' % (name.lower().replace('-', ''), rev, tag, rev))
    else:
        body += '%sRoot OBJECT IDENTIFIER ::= { iso 3 }  -- %s\n' % (name.lower().replace('-', ''), tag)
    return body + 'END\n'


def mibcopy(r1: int, r2: int, rd: int, has_dst: bool, swap: bool, alias: bool, two_names: bool) -> bool:
    """
    requires: 0 <= r1 < len(REVS) and 0 <= r2 < len(REVS) and 0 <= rd < len(REVS) and r1 != r2
    """
    r1, r2, rd = pick(REVS, r1), pick(REVS, r2), pick(REVS, rd)
    has_dst, swap, alias, two_names = bool(has_dst), bool(swap), bool(alias), bool(two_names)
    with tok._untraced():
        return _mibcopy(r1, r2, rd, has_dst, swap, alias, two_names)


def _mibcopy(r1, r2, rd, has_dst, swap, alias, two_names):
    top = tempfile.mkdtemp(prefix='verif-x20-')
    try:
        s1, s2, dst, stubs = [os.path.join(top, d) for d in ('s1', 's2', 'dst', 'stubs')]
        for d in (s1, s2, dst, stubs):
            os.mkdir(d)
        for n, t in STUBS.items():
            open(os.path.join(stubs, n), 'w').write(t)
        # the same module in two source directories with two revisions; files may be named unlike their module
        open(os.path.join(s1, 'copy-one.mib' if alias else 'M-MIB'), 'w').write(_mib_rev('M-MIB', r1, 'from-s1'))
        open(os.path.join(s2, 'M-MIB'), 'w').write(_mib_rev('M-MIB', r2, 'from-s2'))
        if two_names:
            open(os.path.join(s2, 'other.txt'), 'w').write(_mib_rev('N-MIB', r1, 'n-from-s2'))
        if has_dst:
            open(os.path.join(dst, 'M-MIB'), 'w').write(_mib_rev('M-MIB', rd, 'old-dst'))
        srcs = [s2, s1] if swap else [s1, s2]
        rc, err = _run_script('mibcopy.py', ['--mib-source=file://' + stubs] + srcs + [dst])
        got = {}
        for f in os.listdir(dst):
            got[f] = open(os.path.join(dst, f)).read()
    finally:
        shutil.rmtree(top, ignore_errors=True)
    if rc != 0:
        return False
    # the copy with the latest revision, stored under the canonical module name, whatever the visiting order
    cands = [(ORDER[r1], 'from-s1'), (ORDER[r2], 'from-s2')]
    if has_dst:
        cands.append((ORDER[rd], 'old-dst'))
    best = max(c[0] for c in cands)
    winners = [tag for o, tag in cands if o == best]
    want_files = ['M-MIB'] + (['N-MIB'] if two_names else [])
    if sorted(got) != sorted(want_files):
        return False
    if not any(('"%s"' % w) in got['M-MIB'] for w in winners):
        return False
    if two_names and '"n-from-s2"' not in got['N-MIB']:
        return False
    return True


X = 'the real script run in-process (runpy) on a real temporary directory, concretely, once per solver-explored shape; '


def conditions(prop, tier):
    q = tier == 'quick'
    t = 280 if q else 1500
    out = []
    for fmt in (0, 1, 2):
        for ak in (0, 1, 2):
            if q and (fmt, ak) in ((2, 1), (2, 2), (1, 2)):
                continue
            out.append(dict(name='C20.exec.mibdump.f%d.a%d' % (fmt, ak), fn='mibdump', fixed=dict(fmt=fmt, akind=ak), timeout=t,
                            extra_pre=['not nodeps or not dry', 'not pycbad or (not dry and not nowrite)', 'not bor or not (nodeps or pycbad)'] if q else [],
                            bounds=X + 'mibdump, format %s: requested module %s, second module healthy / syntax error / semantic error / '
                                   'missing, imported and/or requested or not, --dry-run, --no-mib-writes, --ignore-errors, --no-dependencies, byte-compilation crashing or off: exit status, '
                                   'report categories and destination directory vs the ground truth of the shape'
                                   % (('json', 'pysnmp', 'null')[fmt], ('healthy', 'with a syntax error', 'with a semantic error')[ak])))
    for has_dst in (False, True):
        out.append(dict(name='C20.exec.mibcopy.dst%d' % has_dst, fn='mibcopy', fixed=dict(has_dst=has_dst), timeout=t,
                        bounds=X + 'mibcopy: one module in two source directories (one file possibly named unlike its module) with two different revisions '
                               'from a pool (incl. a 2-digit-year form), an older / newer copy at the destination or none, both visiting orders, a second '
                               'module or not: the destination holds the latest revision under the canonical name'))
    return out


def selftests(prop):
    return [('mibdump', dict(akind=0, bkind=0, imp=True, req_b=False, fmt=0, dry=False, nowrite=False, ignore=False, nodeps=False, pycbad=False, bor=False)),
            ('mibdump', dict(akind=0, bkind=3, imp=True, req_b=False, fmt=1, dry=False, nowrite=False, ignore=True, nodeps=False, pycbad=False, bor=True)),
            ('mibdump', dict(akind=0, bkind=0, imp=True, req_b=True, fmt=1, dry=False, nowrite=False, ignore=False, nodeps=False, pycbad=True, bor=False)),
            ('mibdump', dict(akind=0, bkind=3, imp=True, req_b=False, fmt=0, dry=False, nowrite=False, ignore=False, nodeps=False, pycbad=False, bor=True)),
            ('mibcopy', dict(r1=0, r2=2, rd=1, has_dst=True, swap=False, alias=True, two_names=False))]
