"""C06: references between objects keep their targets, order and module attribution (TOK + XH, JSON side).

Real code: p_objectTypeClause/p_conceptualTable/p_row/p_entryType/p_sequenceItems/p_MibIndex/p_IndexTypes/p_IndexType/
p_IndexPart/p_Objects/p_Notifications/p_VarTypes/p_ComplianceModule/p_MandatoryGroups/p_Compliances ... through the LR
driver; SymtableCodeGen (genConceptualTable/genRow/genSequence/genIndex/genObjectType); IntermediateCodeGen
(genObjectType/genTableIndex/genRow/genConceptualTable/genObjects/genNotificationType/genObjectGroup/
genNotificationGroup/genTrapType/genCompliances/genModuleCompliance).
"""
import itertools

from harness import tok, smimodel as m
from harness.tok import seq
from pysmi import error

PERMS3 = list(itertools.permutations(range(3)))
PERMS4 = list(itertools.permutations(range(4)))


def pick(table, k):
    for i in range(len(table)):
        if k == i:
            return table[i]
    return table[0]


def _compile(mods, dialect='smiV2'):
    trees = []
    extra = None
    for t in mods:
        if t is OTHER_MARK:
            extra = tok.const_symtab('c06-other', other_module)
        else:
            trees.extend(tok.parse_tokens(t, dialect))
    return tok.compile_trees(trees, backend='json', extra_symtab=extra)


OTHER_MARK = ['<other>']


OTHER = None


def other_module():
    """a second module that defines objects the first one refers to"""
    global OTHER
    if OTHER is None:
        OTHER = m.module('OTHER-MIB', [], [
            m.value_decl('otherRoot', m.oid('iso', 9)),
            m.object_type('otherIdx', seq('Integer32'), m.oid('otherRoot', 1), descr=m.text('d')),
            m.object_type('other-hy', seq('Integer32'), m.oid('otherRoot', 2), descr=m.text('d')),
            m.object_type('otherTable', seq('SEQUENCE OF OtherEntry'), m.oid('otherRoot', 3), access='not-accessible', descr=m.text('d')),
            m.object_type('otherEntry', seq('OtherEntry'), m.oid('otherTable', 1), access='not-accessible', descr=m.text('d'),
                          index=[(False, 'otherIdx')]),
            m.sequence_type('OtherEntry', [('otherIdx', 'Integer32')]),
            m.notification_type('otherNotif', m.oid('otherRoot', 4)),
            m.object_group('otherGroup', m.oid('otherRoot', 5), ['otherIdx']),
        ])
    return list(OTHER)


def table(ncols: int, nidx: int, x0: int, x1: int, x2: int, im0: bool, im1: bool, im2: bool,
          has_seq: bool, order: int, hy: bool) -> bool:
    """
    requires: 1 <= ncols <= 3 and 1 <= nidx <= 3 and 0 <= order < 24
    requires: 0 <= x0 <= 4 and 0 <= x1 <= 4 and 0 <= x2 <= 4
    """
    # index objects: 0..2 own columns c1..c3 (when they exist), 3 imported otherIdx, 4 imported other-hy
    cols = ['c-1' if hy else 'c1', 'c2', 'c3'][:ncols]
    cand = cols + [None] * (3 - ncols) + ['otherIdx', 'other-hy']
    idx = []
    for x, im in list(zip([x0, x1, x2], [im0, im1, im2]))[:nidx]:
        name = pick(cand, x)
        if name is None:
            name = cols[0]
        idx.append((im, name))
    tbl = m.object_type('xTable', seq('SEQUENCE OF XEntry'), m.oid('iso', 3), access='not-accessible', descr=m.text('d'))
    row = m.object_type('xEntry', seq('XEntry'), m.oid('xTable', 1), access='not-accessible', descr=m.text('d'), index=idx)
    cdecls = []
    for i, c in enumerate(cols):
        cdecls += m.object_type(c, seq('Integer32'), m.oid('xEntry', i + 1), descr=m.text('d'))
    sq = m.sequence_type('XEntry', [(c, 'Integer32') for c in cols]) if has_seq else []
    scalar = m.object_type('sc', seq('Integer32'), m.oid('iso', 4), descr=m.text('d'))
    parts = [tbl, row, cdecls + scalar, sq]
    body = [parts[i] for i in pick(PERMS4, order)]
    main = m.module('M', [('OTHER-MIB', ['otherIdx', 'other-hy'])], body)
    try:
        res = _compile([main, OTHER_MARK])
    except error.PySmiError:
        return False
    ctx = res.ctx['M']
    if ctx['xTable']['nodetype'] != 'table' or ctx['xEntry']['nodetype'] != 'row' or ctx['sc']['nodetype'] != 'scalar':
        return False
    for c in cols:
        want = 'column' if has_seq else 'scalar'   # without a SEQUENCE definition nothing says it is a column
        if has_seq and ctx[c.replace('-', '_')]['nodetype'] != want:
            return False
    got = ctx['xEntry']['indices']
    if len(got) != len(idx):
        return False
    for g, (im, name) in zip(got, idx):
        mod = 'OTHER-MIB' if name in ('otherIdx', 'other-hy') else 'M'
        if g['object'] != name.replace('-', '_') or g['module'] != mod or bool(g['implied']) != im:
            return False
    return True


def augments(foreign: bool, order: int) -> bool:
    """
    requires: 0 <= order < 6
    """
    base_tbl = m.object_type('bTable', seq('SEQUENCE OF BEntry'), m.oid('iso', 3), access='not-accessible', descr=m.text('d'))
    base_row = m.object_type('bEntry', seq('BEntry'), m.oid('bTable', 1), access='not-accessible', descr=m.text('d'),
                             index=[(False, 'b1')])
    base_col = m.object_type('b1', seq('Integer32'), m.oid('bEntry', 1), descr=m.text('d'))
    base_seq = m.sequence_type('BEntry', [('b1', 'Integer32')])
    target = 'otherEntry' if foreign else 'bEntry'
    tbl = m.object_type('aTable', seq('SEQUENCE OF AEntry'), m.oid('iso', 4), access='not-accessible', descr=m.text('d'))
    row = m.object_type('aEntry', seq('AEntry'), m.oid('aTable', 1), access='not-accessible', descr=m.text('d'), augments=target)
    col = m.object_type('a1', seq('Integer32'), m.oid('aEntry', 1), descr=m.text('d'))
    sq = m.sequence_type('AEntry', [('a1', 'Integer32')])
    groups = [base_tbl + base_row + base_col + base_seq, tbl + sq, row + col]
    body = [groups[i] for i in pick(PERMS3, order)]
    main = m.module('M', [('OTHER-MIB', ['otherEntry'])], body)
    try:
        res = _compile([main, OTHER_MARK])
    except error.PySmiError:
        return False
    ctx = res.ctx['M']
    a = ctx['aEntry']
    if a['nodetype'] != 'row' or ctx['a1']['nodetype'] != 'column' or ctx['aTable']['nodetype'] != 'table':
        return False
    aug = a.get('augmention')
    if not aug or aug['object'] != target:
        return False
    # ('name'/'module' identify the augmenting row itself: that is how the pysnmp template consumes them)
    return aug['module'] == 'M' and aug['name'] == 'aEntry'


LOCALS = ['o1', 'o-2', 'o3']
FOREIGN = ['otherIdx', 'other-hy', 'otherNotif']


def _objs(n, p, f0, f1, f2):
    names = [LOCALS[i] for i in pick(PERMS3, p)]
    fl = [f0, f1, f2]
    out = []
    for i in range(n):
        out.append(FOREIGN[i] if fl[i] else names[i])
    return out


def object_lists(kind: int, n: int, p: int, f0: bool, f1: bool, f2: bool) -> bool:
    """
    requires: 0 <= kind <= 3 and 0 <= n <= 3 and 0 <= p < 6
    requires: n >= 1 or kind == 0 or kind == 3
    """
    objs = _objs(n, p, f0, f1, f2)
    decls = [m.value_decl('root', m.oid('iso', 3))]
    for i, o in enumerate(LOCALS):
        decls.append(m.object_type(o, seq('Integer32'), m.oid('root', i + 1), descr=m.text('d')))
    dialect = 'smiV2'
    if kind == 0:
        decls.append(m.notification_type('subj', m.oid('root', 9), objects=objs if n else None))
    elif kind == 1:
        decls.append(m.object_group('subj', m.oid('root', 9), objs))
    elif kind == 2:
        decls.append(m.notification_group('subj', m.oid('root', 9), objs))
    else:
        dialect = 'smiV1'
        decls.append(m.trap_type('subj', m.oid('root'), 7, variables=objs if n else None, dialect='smiV1'))
    main = m.module('M', [('OTHER-MIB', FOREIGN)], decls, dialect=dialect)
    try:
        trees = tok.parse_tokens(main, dialect)
        res = tok.compile_trees(trees, backend='json', extra_symtab=tok.const_symtab('c06-other', other_module))
    except error.PySmiError:
        return False
    got = res.ctx['M']['subj'].get('objects', [])
    if len(got) != len(objs):
        return False
    for g, o in zip(got, objs):
        if g['object'] != o.replace('-', '_') or g['module'] != ('OTHER-MIB' if o in FOREIGN else 'M'):
            return False
    return True


def compliance(nmod: int, named: bool, nmand: int, c0: int, c1: int, c2: int, ncl: int) -> bool:
    """
    requires: 1 <= nmod <= 2 and 0 <= nmand <= 2 and 0 <= ncl <= 3
    requires: 0 <= c0 <= 1 and 0 <= c1 <= 1 and 0 <= c2 <= 1
    """
    # MODULE part(s): MANDATORY-GROUPS of length nmand, then an interleaving of GROUP (0) and OBJECT (1) clauses
    kinds = [c0, c1, c2][:ncl]
    clauses = []
    exp = []
    mand = ['gm1', 'gm2'][:nmand] if nmand else None
    modname = 'OTHER-MIB' if named else None
    for g in (mand or []):
        exp.append((g, modname or 'M'))
    for i, k in enumerate(kinds):
        if k == 0:
            clauses.append(('G', 'gg%d' % i))
            exp.append(('gg%d' % i, modname or 'M'))
        else:
            clauses.append(('O', 'ob%d' % i))
    mods = [(modname, mand, clauses)]
    if nmod == 2:
        mods.append((None if named else 'OTHER-MIB', ['gx'], []))
        exp.append(('gx', 'M' if named else 'OTHER-MIB'))
    d = m.module_compliance('mc', m.oid('iso', 3), modules=mods)
    main = m.module('M', [], [d])
    try:
        res = _compile([main])
    except error.PySmiError:
        return False
    got = res.ctx['M']['mc'].get('modulecompliance', [])
    if len(got) != len(exp):
        return False
    for g, (o, mod) in zip(got, exp):
        if g['object'] != o or g['module'] != mod:
            return False
    return True


def conditions(prop, tier):
    q = tier == 'quick'
    t = 280 if q else 1500
    out = []
    combos = ((1, 1), (2, 2), (3, 1)) if q else [(a, b) for a in (1, 2, 3) for b in (1, 2, 3)]
    for ncols, nidx in combos:
        for hs in (False, True):
            for hy in (False, True):
                if q and hs != (not hy) and (ncols, nidx) != (1, 1):
                    continue
                for olo in ((0,) if q else ((0, 6, 12, 18) if nidx < 3 else (0, 12))):
                    out.append(dict(name='C06.table.c%d-i%d-s%d-h%d-o%d' % (ncols, nidx, hs, hy, olo), fn='table',
                                    fixed=dict(ncols=ncols, nidx=nidx, has_seq=hs, hy=hy), timeout=t,
                                    extra_pre=['%d <= order < %d' % (olo, olo + (3 if q else 6))] + (['x2 <= 3 and not im2'] if (nidx == 3 and not q) else []),
                                    bounds='table with %d column(s), INDEX of %d entries each an own column / imported object / imported '
                                           'hyphenated object with symbolic IMPLIED flags; SEQUENCE type present: %s; hyphenated column: %s; '
                                           'declaration order of {table,row,columns,SEQUENCE}: symbolic within the shard' % (ncols, nidx, hs, hy)))
    out.append(dict(name='C06.augments', fn='augments', fixed={}, timeout=t,
                    bounds='AUGMENTS of a local or imported row, order of the three declaration groups symbolic'))
    for kind in range(4):
        out.append(dict(name='C06.objects.k%d' % kind, fn='object_lists', fixed=dict(kind=kind), timeout=t,
                        bounds='OBJECTS / NOTIFICATIONS / VARIABLES list (kind %d of NOTIFICATION-TYPE, OBJECT-GROUP, NOTIFICATION-GROUP, '
                               'TRAP-TYPE) of length 0..3 mixing local (incl. hyphenated) and imported objects in symbolic order' % kind))
    out.append(dict(name='C06.compliance', fn='compliance', fixed={}, timeout=t,
                    bounds='MODULE-COMPLIANCE with 1..2 MODULE parts (named or not), MANDATORY-GROUPS of 0..2, every interleaving of <=3 GROUP/OBJECT clauses'))
    return out


def selftests(prop):
    return [('table', dict(ncols=2, nidx=2, x0=0, x1=3, x2=0, im0=False, im1=True, im2=False, has_seq=True, order=0, hy=False)),
            ('augments', dict(foreign=False, order=0)),
            ('object_lists', dict(kind=1, n=2, p=0, f0=False, f1=True, f2=False)),
            ('object_lists', dict(kind=3, n=1, p=0, f0=False, f1=False, f2=False)),
            ('compliance', dict(nmod=2, named=False, nmand=2, c0=0, c1=0, c2=0, ncl=2))]
