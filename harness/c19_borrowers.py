"""C19 (second half): AbstractBorrower.getData / PyFileBorrower / AnyFileBorrower.

Real code: pysmi/borrower/base.py, pyfile.py, anyfile.py. The reader behind the borrower is a recording double
(real readers are C14's subject).
Symbolic: the genTexts option of the request (absent / None / False / True), the borrower's flavour
(constructor argument None / False / True), the borrower class, whether the caller passes its own exts,
the reader's outcome.
"""
from pysmi.borrower import base, pyfile, anyfile
from pysmi.mibinfo import MibInfo
from pysmi import error


class Reader(object):
    def __init__(self, outcome):
        self.outcome = outcome
        self.calls = []
        self.opts = {}

    def setOptions(self, **kw):
        self.opts.update(kw)
        return self

    def getData(self, mibname, **options):
        self.calls.append((mibname, dict(options)))
        if self.outcome == 0:
            raise error.PySmiReaderFileNotFoundError('nf', reader=self)
        if self.outcome == 1:
            raise error.PySmiReaderError('io', reader=self)
        return MibInfo(name=mibname, path='p/' + mibname, file=mibname + '.py', mtime=3), 'BORROWED-TEXT'


def borrow(req: int, flavour: int, cls: int, own_exts: bool, outcome: int, set_exts: bool) -> bool:
    """
    requires: 0 <= req <= 3 and 0 <= flavour <= 2 and 0 <= cls <= 1 and 0 <= outcome <= 2
    """
    rd = Reader(outcome)
    klass = pyfile.PyFileBorrower if cls == 0 else anyfile.AnyFileBorrower
    b = klass(rd, genTexts=(None, False, True)[flavour])
    if set_exts:
        b.setOptions(exts=['.json'])
    want_flavour = flavour == 2
    options = {}
    if req == 1:
        options['genTexts'] = None
    elif req == 2:
        options['genTexts'] = False
    elif req == 3:
        options['genTexts'] = True
    if own_exts:
        options['exts'] = ['.x']
    asked_texts = req == 3
    try:
        r = b.getData('M', **options)
        got = 'ok'
    except error.PySmiError:
        r = None
        got = 'package-error'
    except Exception:
        return False
    if asked_texts != want_flavour:
        # flavour mismatch: the reader must not even be asked, the borrower reports a package error
        return got == 'package-error' and not rd.calls
    if len(rd.calls) != 1:
        return False
    name, opts = rd.calls[0]
    if name != 'M':
        return False
    if own_exts:
        exts = ['.x']
    elif set_exts:
        exts = ['.json']
    elif cls == 0:
        exts = pyfile.SOURCE_SUFFIXES
    else:
        exts = ''
    if opts.get('exts') != exts:
        return False
    if set_exts and rd.opts.get('exts') != ['.json']:
        return False
    if outcome == 2:
        return got == 'ok' and r[1] == 'BORROWED-TEXT' and r[0].name == 'M'
    return got == 'package-error'


def conditions(prop, tier):
    return [dict(name='C19.AbstractBorrower.getData', fn='borrow', fixed={}, timeout=200,
                 bounds='request genTexts in {absent,None,False,True} x borrower flavour {None,False,True} x {PyFileBorrower,'
                        'AnyFileBorrower} x exts from caller/setOptions/class default x reader outcome {not-found,error,ok}')]


def selftests(prop):
    return [('borrow', dict(req=3, flavour=2, cls=0, own_exts=False, outcome=2, set_exts=False)),
            ('borrow', dict(req=0, flavour=2, cls=1, own_exts=False, outcome=2, set_exts=False))]
