"""Engine TOK: token-level sentences fed to the REAL PLY LR driver + real p_* actions of pysmi,
then through the real SymtableCodeGen / IntermediateCodeGen / JsonCodeGen / PySnmpCodeGen (up to the
template render call, which is captured).

Constant pieces of a sentence are written as MIB text and tokenised once, concretely, by the real lexer;
symbolic tokens (numbers, one string) are spliced in as (type, value) pairs.
"""
import sys

from pysmi.parser.smi import parserFactory
from pysmi.parser import dialect as _dialect
from pysmi.codegen import symtable as _symtable, intermediate as _intermediate
from pysmi.codegen import jsondoc as _jsondoc, pysnmp as _pysnmp
from pysmi import error

DIALECTS = {'smiV2': _dialect.smiV2, 'smiV1': _dialect.smiV1, 'smiV1Relaxed': _dialect.smiV1Relaxed}
_PARSERS = {}
_LEXCACHE = {}


def get_parser(name='smiV2'):
    if name not in _PARSERS:
        opts = DIALECTS[name] if name in DIALECTS else dict((o, True) for o in name.split('+') if o)
        _PARSERS[name] = parserFactory(**opts)()
    return _PARSERS[name]


class Tok(object):
    __slots__ = ('type', 'value', 'lineno', 'lexpos', 'lexer')

    def __init__(self, type, value, lineno, lexpos=0):
        self.type = type
        self.value = value
        self.lineno = lineno
        self.lexpos = lexpos

    def __repr__(self):
        return 'Tok(%s,%r,%s)' % (self.type, self.value, self.lineno)


class FakeLexer(object):
    """token source for yacc: concrete token types, (possibly symbolic) values; lineno = 1-based position"""

    def __init__(self, toks):
        self.toks = toks
        self.i = 0
        self.lineno = 1

    def input(self, data):
        pass

    def token(self):
        if self.i >= len(self.toks):
            return None
        t = self.toks[self.i]
        self.i += 1
        return Tok(t[0], t[1], self.i)


def lex_text(text, dialect='smiV2'):
    """tokenise constant text with the real lexer (concretely, cached)"""
    key = (dialect, text)
    if key not in _LEXCACHE:
        with _untraced():
            lx = get_parser(dialect).lexer.lexer.clone()
            lx.lineno = 1
            lx.begin('INITIAL')
            lx.input(text)
            out = []
            while True:
                t = lx.token()
                if t is None:
                    break
                out.append((t.type, t.value))
            _LEXCACHE[key] = out
    return list(_LEXCACHE[key])


def _untraced():
    """constant text is tokenised concretely: switch CrossHair's tracing off for the duration, if it is on"""
    try:
        from crosshair.tracers import NoTracing, is_tracing
        if is_tracing():
            return NoTracing()
    except ImportError:
        pass
    import contextlib
    return contextlib.nullcontext()


def seq(*parts, **kw):
    """build a token list: str -> lexed constant text, list -> tokens, tuple -> one token"""
    dialect = kw.get('dialect', 'smiV2')
    out = []
    for p in parts:
        if isinstance(p, str):
            out.extend(lex_text(p, dialect))
        elif isinstance(p, list):
            out.extend(p)
        elif isinstance(p, tuple):
            out.append(p)
        elif p is None:
            pass
        else:
            raise TypeError(p)
    return out


def NUM(v):
    """NUMBER token with a value the caller keeps within 0..2**32-1"""
    return ('NUMBER', v)


def number_token(v):
    """mirror of the token class decision for a (symbolic) integer; the lexer itself is checked in LEX/C05"""
    if v < 0:
        if v >= -4294967295:
            return ('NEGATIVENUMBER', v)
        return ('NEGATIVENUMBER64', v)
    if v <= 4294967295:
        return ('NUMBER', v)
    return ('NUMBER64', v)


def LC(name):
    return ('LOWERCASE_IDENTIFIER', name)


def UC(name):
    return ('UPPERCASE_IDENTIFIER', name)


def QS(quoted):
    return ('QUOTED_STRING', quoted)


def parse_tokens(toks, dialect='smiV2'):
    """real LRParser + real p_* actions. returns list of module ASTs (mirrors SmiV2Parser.parse's wrapper)"""
    p = get_parser(dialect)
    ast = p.parser.parse(lexer=FakeLexer(toks))
    if ast and ast[0] == 'mibFile' and ast[1]:
        return ast[1]
    return []


def parse_raw(toks, dialect='smiV2'):
    p = get_parser(dialect)
    # the error rule reports unexpected end of input at the lexer's current line: in token mode "line" = token position
    p.lexer.lexer.lineno = len(toks)
    try:
        return p.parser.parse(lexer=FakeLexer(toks))
    finally:
        p.lexer.lexer.lineno = 1


def parse_text(text, dialect='smiV2'):
    """the public entry: real lexer + real parser on text (used by replays / self-tests)"""
    p = parserFactory(**DIALECTS[dialect])()
    return p.parse(text)


# ---- template capture ---------------------------------------------------------------------------------

class _FakeTemplate(object):
    def render(self, **kw):
        return kw['mib']


class _FakeEnv(object):
    def __init__(self, **kw):
        self.filters = {}

    def get_template(self, name):
        return _FakeTemplate()


class FakeJinja(object):
    class exceptions(object):
        class TemplateError(Exception):
            pass

    Environment = _FakeEnv

    @staticmethod
    def FileSystemLoader(path):
        return None


def install_jinja_capture():
    _jsondoc.jinja2 = FakeJinja
    _pysnmp.jinja2 = FakeJinja


# ---- pipeline -----------------------------------------------------------------------------------------

class Result(object):
    pass


def compile_trees(trees, backend='json', genTexts=False, textFilter=None, order=None, symgen=None, codegen=None,
                  extra_symtab=None):
    """what MibCompiler.compile does with parsed trees: ONE symbol-table builder and ONE code generator are
    reused for all modules; symbol tables first (in `order`), then code generation.
    Returns Result with .symtab {module: table}, .info {module: MibInfo}, .ctx {module: context}, .syminfo"""
    install_jinja_capture()
    r = Result()
    r.symtab = dict(extra_symtab or {})
    r.syminfo = {}
    r.info = {}
    r.ctx = {}
    sg = symgen or _symtable.SymtableCodeGen()
    idx = list(range(len(trees))) if order is None else order
    for i in idx:
        mi, st = sg.genCode(trees[i], r.symtab)
        r.symtab[mi.name] = st
        r.syminfo[mi.name] = mi
    if backend is None:
        return r
    if backend == 'json':
        cg = codegen or _jsondoc.JsonCodeGen()
    elif backend == 'pysnmp':
        cg = codegen or _pysnmp.PySnmpCodeGen()
    else:
        cg = codegen or _intermediate.IntermediateCodeGen()
    for i in idx:
        kw = dict(genTexts=genTexts)
        if textFilter is not None:
            kw['textFilter'] = textFilter
        mi, ctx = cg.genCode(trees[i], r.symtab, **kw)
        r.info[mi.name] = mi
        r.ctx[mi.name] = ctx
    r.codegen = cg
    if EXEC is not None and backend in ('json', 'pysnmp'):
        _exec_hook(trees, idx, extra_symtab, genTexts, textFilter, r.ctx if backend == 'json' else None)
    return r


# ---- engine EXEC hook: the same trees through the real template / CPython / pysnmp, concretely, once per path --------
EXEC = None


def _exec_hook(trees, idx, extra_symtab, genTexts, textFilter, json_ctx=None):
    from harness import execpy
    st = EXEC
    try:
        from crosshair.tracers import is_tracing
        from crosshair.core import deep_realize
        if is_tracing():
            trees = deep_realize(trees)                 # pool-restricted symbolic leaves: every pool value is enumerated
            extra_symtab = deep_realize(extra_symtab) if extra_symtab else extra_symtab
            genTexts = bool(deep_realize(genTexts))
            json_ctx = deep_realize(json_ctx) if json_ctx else json_ctx
    except ImportError:
        pass
    if json_ctx and 'json' in st.get('aspects', ()):
        # C03: the TEXT the real template renders is well-formed JSON and decodes to exactly the context the symbolic
        # conditions inspect (so what they establish about the context holds for the document)
        d = execpy.json_document_differences([trees[i] for i in idx], extra_symtab, genTexts, textFilter, json_ctx)
        st['runs'] = st.get('runs', 0) + 1
        st['diffs'].extend(d)
        if not [a for a in st['aspects'] if a != 'json']:
            return
    mine = [trees[i] for i in idx]
    have = set(t[0] for t in mine)
    deps = [CONST_MODTREES[n] for n in (extra_symtab or {}) if n in CONST_MODTREES and n not in have]
    d = execpy.differences_trees(deps + mine, extra_symtab, genTexts=genTexts, textFilter=textFilter,
                                 aspects=st.get('aspects', execpy.ALL_ASPECTS), modules=have)
    if d is None:
        st['skipped'] = st.get('skipped', 0) + 1
    else:
        st['runs'] = st.get('runs', 0) + 1
        st['diffs'].extend(d)


def numeric_oid(symtab, module, name):
    g = _intermediate.IntermediateCodeGen()
    g.symbolTable = symtab
    return g.genNumericOid(symtab[module][name]['oid'])


_CONST_TREES = {}


def const_trees(key, build, dialect='smiV2'):
    """trees of a constant module: parsed once, handed out as fresh deep copies (the generators mutate the
    IMPORTS part of a tree); all of it untraced, since nothing in it is symbolic"""
    import copy
    with _untraced():
        if key not in _CONST_TREES:
            _CONST_TREES[key] = parse_tokens(build(), dialect)
        return copy.deepcopy(_CONST_TREES[key])


_CONST_SYMTAB = {}
CONST_MODTREES = {}


def const_symtab(key, build, dialect='smiV2'):
    """symbol tables of constant modules (dependencies whose own code generation is not the subject):
    built once by the real SymtableCodeGen, untraced; fresh deep copy per use"""
    import copy
    with _untraced():
        if key not in _CONST_SYMTAB:
            trees = parse_tokens(build(), dialect)
            for t in trees:
                CONST_MODTREES[t[0]] = copy.deepcopy(t)     # engine EXEC generates and loads these dependencies too
            r = compile_trees(trees, backend=None)
            _CONST_SYMTAB[key] = r.symtab
        return copy.deepcopy(_CONST_SYMTAB[key])
