"""Engine EXEC: the template / CPython / pysnmp layer, executed concretely once per solver-explored path.

CrossHair cannot execute Jinja2-generated template code, `compile()` or pysnmp symbolically (DESIGN section 2). The
conditions that use this module therefore make only the SHAPE of the MIB symbolic (small-range ints / bools that select
kinds, clause presence, notations, list lengths, orders, names and texts from pools); on every path CrossHair explores, all
tokens are concrete, and this module runs - untraced - the REAL pipeline on them:

    tokens -> real LR parser -> real SymtableCodeGen -> real JsonCodeGen   (real Jinja2)  -> json.loads
                                                   \\-> real PySnmpCodeGen (real Jinja2)  -> compile() -> exec against a
                                                       pysnmp MibBuilder

and compares what the loaded pysnmp objects say with what the JSON document says (differential oracle; the JSON side is
checked against the ground truth by the symbolic conditions of C01/C03/C05/C06/C15). The solver decides which shapes are
distinct paths; the template layer itself is decided by concrete execution per path - stated as such in the evidence.
"""
import json
import re

from harness import tok
from pysmi.codegen import symtable as _symtable, jsondoc as _jsondoc, pysnmp as _pysnmp
from pysmi import error

_REAL_JINJA = [None]


def _real_jinja():
    if _REAL_JINJA[0] is None:
        import jinja2
        _REAL_JINJA[0] = jinja2
    return _REAL_JINJA[0]


class Loaded(object):
    pass


def generate_and_load(tokmods, dialect='smiV2', genTexts=True, textFilter=None, load=True):
    """tokmods: list of token lists, one per module, dependencies first"""
    with tok._untraced():
        trees = []
        for t in tokmods:
            trees.extend(tok.parse_tokens(t, dialect))
        return generate_and_load_trees(trees, genTexts=genTexts, textFilter=textFilter, load=load)


def _import_order(trees):
    """dependencies first (IMPORTS among the given trees); stable otherwise"""
    names = [t[0] for t in trees]
    deps = {}
    for t in trees:
        imps = t[2] if isinstance(t[2], dict) else {}
        deps[t[0]] = [m_ for m_ in imps if m_ in names and m_ != t[0]]
    out, seen = [], set()

    def visit(n, stack=()):
        if n in seen or n in stack:
            return
        for d in deps.get(n, ()):
            visit(d, stack + (n,))
        seen.add(n)
        out.append(n)
    for n in names:
        visit(n)
    by = dict((t[0], t) for t in trees)
    return [by[n] for n in out]


V1_MODULES = ('RFC1155-SMI', 'RFC1065-SMI', 'RFC-1212', 'RFC-1215', 'RFC1213-MIB', 'RFC1158-MIB')
V2_MACROS = {'SNMPv2-SMI': ['OBJECT-TYPE', 'MODULE-IDENTITY', 'OBJECT-IDENTITY', 'NOTIFICATION-TYPE'],
             'SNMPv2-TC': ['TEXTUAL-CONVENTION'],
             'SNMPv2-CONF': ['OBJECT-GROUP', 'NOTIFICATION-GROUP', 'MODULE-COMPLIANCE', 'AGENT-CAPABILITIES']}


def _wellformed_imports(imports):
    """the model modules of the harness usually leave out the IMPORTS of the SMI macros they use; a well-formed SMIv2
    module names them. SMIv1 modules (importing from an SMIv1 base module) are left as they are."""
    imports = dict((k, list(v)) for k, v in (imports or {}).items())
    for m_ in imports:
        if m_ in V1_MODULES:
            return imports
    for m_, syms in V2_MACROS.items():
        cur = imports.setdefault(m_, [])
        for s_ in syms:
            if s_ not in cur:
                cur.append(s_)
    return imports


def install(ns, basemod, names, aspects=None):
    """define x_<fn> (known findings filtered) and xs_<fn> (strict; witnesses of known findings) in namespace ns"""
    for n in names:
        base = getattr(basemod, n)
        ns['x_' + n] = wrap(base, aspects, 'x_' + n)
        ns['xs_' + n] = wrap(base, aspects, 'xs_' + n, strict=True)


def wrap(base, aspects=None, name=None, strict=False):
    """an EXEC condition from an existing condition function: same arguments and bounds; the verdict is that the loaded
    pysnmp modules agree with the JSON documents for every compile_trees() call the function makes"""
    import inspect

    def w(*a, **kw):
        st = dict(diffs=[], aspects=aspects or ALL_ASPECTS)
        tok.EXEC = st
        try:
            base(*a, **kw)
        finally:
            tok.EXEC = None
        LAST[0] = st
        for d in st['diffs']:
            if strict or not _known(d):
                return False
        return True
    w.__name__ = name or ('x_' + base.__name__)
    w.__doc__ = base.__doc__
    w.__signature__ = inspect.signature(base)
    w.__annotations__ = dict(base.__annotations__)
    w.__wrapped_base__ = base
    return w


LAST = [None]
KNOWN_PATTERNS = []      # (finding id, regex) - filled from known_findings.json (exec_patterns) by load_known_patterns()


def load_known_patterns():
    import os
    path = os.path.join(os.path.dirname(os.path.dirname(os.path.abspath(__file__))), 'known_findings.json')
    del KNOWN_PATTERNS[:]
    try:
        with open(path) as f:
            data = json.load(f)
    except (OSError, ValueError):
        return
    for e in data.get('findings', []):
        if e.get('status') == 'open':
            for pat in e.get('exec_patterns', []):
                KNOWN_PATTERNS.append((e['id'], re.compile(pat)))


def _known(diff):
    if not KNOWN_PATTERNS:
        load_known_patterns()
    for kid, rx in KNOWN_PATTERNS:
        if rx.search(diff):
            return True
    return False


def generate_and_load_trees(trees, extra_symtab=None, genTexts=True, textFilter=None, load=True, only=None):
    """trees: module syntax trees (concrete). Returns Loaded with .docs {module: parsed JSON}, .code {module: python
    text}, .mb MibBuilder, .syms {module: {name: object}}; raises PySmiError when JSON generation fails; template,
    compile and load errors are recorded in .errors. Modules of extra_symtab are dependencies that are NOT generated."""
    import copy
    with tok._untraced():
        j = _real_jinja()
        old = (_jsondoc.jinja2, _pysnmp.jinja2)
        _jsondoc.jinja2 = j
        _pysnmp.jinja2 = j
        try:
            trees = _import_order(copy.deepcopy(list(trees)))
            # a well-formed SMIv2 module has an IMPORTS clause (the macros it uses come from SNMPv2-SMI/-TC/-CONF); the
            # model modules of the harness often have none: give them one (modules without IMPORTS are outside this claim)
            trees = [(t[0], t[1], _wellformed_imports(t[2]), t[3]) for t in trees]
            sg = _symtable.SymtableCodeGen()
            symtab = dict(copy.deepcopy(extra_symtab) if extra_symtab else {})
            names = []
            for tree in trees:
                mi, st = sg.genCode(tree, symtab)
                symtab[mi.name] = st
                names.append(mi.name)
            r = Loaded()
            r.names = names
            r.docs, r.code, r.errors = {}, {}, []
            kw = dict(genTexts=genTexts)
            if textFilter is not None:
                kw['textFilter'] = textFilter
            jg = _jsondoc.JsonCodeGen()
            # stand-ins for modules pysnmp ships (e.g. a miniature SNMPv2-SMI) only feed the symbol table
            trees = [t for t in trees if not shipped(t[0])]
            names = [t[0] for t in trees]
            r.names = names
            for tree in trees:
                mi, text = jg.genCode(tree, symtab, **kw)
                r.docs[mi.name] = json.loads(text)
            pg = _pysnmp.PySnmpCodeGen()
            for tree in trees:
                try:
                    mi, text = pg.genCode(tree, symtab, **kw)
                    r.code[mi.name] = text
                except error.PySmiError as exc:
                    r.errors.append('generate %s: %s' % (tree[0], str(exc)[:200]))
        finally:
            _jsondoc.jinja2, _pysnmp.jinja2 = old
        if r.errors or not load:
            return r
        from pysnmp.smi.builder import MibBuilder
        mb = MibBuilder()
        mb.loadTexts = True
        r.mb = mb
        r.ns = {}
        for name in names:
            ctx = {'mibBuilder': mb}
            try:
                code = compile(r.code[name], name, 'exec')
            except SyntaxError as exc:
                r.errors.append('syntax %s: %s line %s: %r' % (name, exc.msg, exc.lineno, (exc.text or '')[:80]))
                break
            try:
                exec(code, ctx, ctx)
            except Exception as exc:
                note = ''
                if isinstance(exc, NameError):
                    missing = str(exc).split("'")[1] if "'" in str(exc) else ''
                    rec = r.docs[name].get(missing)
                    if isinstance(rec, dict) and rec.get('class') == 'textualconvention':
                        note = ' (a textual convention of this module: the template defines plain types before textual conventions)'
                r.errors.append('load %s: %s: %s%s' % (name, exc.__class__.__name__, str(exc)[:200], note))
                break
            r.ns[name] = ctx
        r.syms = dict((n, mb.mibSymbols.get(n, {})) for n in names)
        return r


CLASS_OF = {'moduleidentity': 'ModuleIdentity', 'objectidentity': 'ObjectIdentity', 'notificationtype': 'NotificationType',
            'objectgroup': 'ObjectGroup', 'notificationgroup': 'NotificationGroup', 'modulecompliance': 'ModuleCompliance',
            'agentcapabilities': 'AgentCapabilities'}
NODE_OF = {'scalar': 'MibScalar', 'table': 'MibTable', 'row': 'MibTableRow', 'column': 'MibTableColumn'}


def _ws(s):
    """texts are compared up to white space (the template word-wraps and adds line ends)"""
    return ' '.join(str(s).split())


def _mro_names(obj):
    return [c.__name__ for c in obj.__class__.__mro__]


def _basetype(rec):
    syn = rec.get('syntax') or rec.get('type')
    return syn.get('type') if isinstance(syn, dict) else None


def _accepts(syntax, v):
    try:
        syntax.clone(v)
        return True
    except Exception:
        return False


def _base_instance(inst):
    """an unrefined instance of the SMI base class the syntax derives from"""
    from pysnmp.proto import rfc1902
    for c in inst.__class__.__mro__:
        if c.__module__ == rfc1902.__name__ and c.__name__ in ('Integer32', 'Integer', 'Unsigned32', 'Gauge32', 'Counter32',
                                                              'Counter64', 'TimeTicks', 'OctetString', 'IpAddress', 'Opaque', 'Bits'):
            try:
                return c()
            except Exception:
                return None
    return None


def _in_ranges(ranges, v):
    for r in ranges:
        if r['min'] <= v <= r['max']:
            return True
    return False


def compare_symbol(mod, key, rec, obj, docs, aspects):
    """mismatches between one JSON record and the loaded pysnmp object"""
    bad = []
    cls = rec.get('class')
    mro = _mro_names(obj) if not isinstance(obj, type) else [c.__name__ for c in obj.__mro__]
    if 'kind' in aspects:
        if cls in CLASS_OF:
            if CLASS_OF[cls] not in mro:
                bad.append('kind: %s is %s, JSON class %s' % (key, mro[0], cls))
        elif cls == 'objecttype':
            want = NODE_OF.get(rec.get('nodetype'))
            if want not in mro or [n for n in mro if n in NODE_OF.values()][0] != want:
                bad.append('kind: %s is %s, JSON nodetype %s' % (key, mro[0], rec.get('nodetype')))
        elif cls in ('type', 'textualconvention'):
            if not isinstance(obj, type):
                bad.append('kind: type %s is not a class' % key)
            elif cls == 'textualconvention' and 'TextualConvention' not in mro:
                bad.append('kind: %s is not a TextualConvention' % key)
    if 'oid' in aspects and 'oid' in rec and not isinstance(obj, type):
        want = tuple(int(x) for x in rec['oid'].split('.'))
        try:
            got = tuple(obj.getName())
        except Exception as exc:
            got = 'exception %r' % (exc,)
        if got != want:
            bad.append('oid: %s has %r, JSON %r' % (key, got, want))
    if 'access' in aspects and cls == 'objecttype' and rec.get('nodetype') in ('scalar', 'column'):
        got = obj.getMaxAccess()
        if got != rec.get('maxaccess'):
            bad.append('access: %s has %r, JSON %r' % (key, got, rec.get('maxaccess')))
    if 'basetype' in aspects and cls in ('objecttype', 'type', 'textualconvention'):
        bt = _basetype(rec)
        if bt and not (cls == 'objecttype' and rec.get('nodetype') in ('table', 'row')):
            want = _pysnmp.PySnmpCodeGen.SMI_TYPES.get(bt, bt)
            want = want.replace('-', '_')
            if isinstance(obj, type):
                names = [c.__name__ for c in obj.__mro__]
            else:
                names = _mro_names(obj.getSyntax())
            if want not in names:
                bad.append('basetype: %s syntax is %s, JSON type %s' % (key, names[:3], bt))
    syn = rec.get('syntax') if cls == 'objecttype' else rec.get('type')
    if 'constraints' in aspects and isinstance(syn, dict) and cls in ('objecttype', 'type', 'textualconvention') \
            and rec.get('nodetype') not in ('table', 'row'):
        try:
            inst = obj() if isinstance(obj, type) else obj.getSyntax()
        except Exception as exc:
            inst = None
            bad.append('constraints: %s cannot be instantiated: %r' % (key, exc))
        cons = syn.get('constraints') or {}
        if inst is not None:
            if 'range' in cons:
                probes = set()
                for r in cons['range']:
                    probes.update((r['min'], r['max'], r['min'] - 1, r['max'] + 1))
                base = _base_instance(inst)
                for v in sorted(probes):
                    if base is not None and not _accepts(base, v):
                        continue            # outside the base type anyway (e.g. 2**64-1 on an Integer32 refinement)
                    if _accepts(inst, v) != _in_ranges(cons['range'], v):
                        # base type limits may reject values the refinement admits: only report admitted-but-refused when in base range
                        bad.append('constraints: %s value %d: pysnmp %s, JSON ranges %s' % (
                            key, v, 'accepts' if _accepts(inst, v) else 'rejects', cons['range']))
                        break
            if 'size' in cons:
                probes = set()
                for r in cons['size']:
                    probes.update((r['min'], r['max'], r['min'] - 1, r['max'] + 1))
                for n in sorted(p for p in probes if 0 <= p <= 300):
                    if _accepts(inst, b'x' * n) != _in_ranges(cons['size'], n):
                        bad.append('constraints: %s size %d: pysnmp %s, JSON sizes %s' % (
                            key, n, 'accepts' if _accepts(inst, b'x' * n) else 'rejects', cons['size']))
                        break
            if 'enumeration' in cons:
                got = dict((k, int(v)) for k, v in dict(inst.namedValues).items()) if hasattr(inst, 'namedValues') else None
                if got != cons['enumeration']:
                    bad.append('constraints: %s namedValues %r, JSON enumeration %r' % (key, got, cons['enumeration']))
            if 'bits' in syn:
                got = dict((k, int(v)) for k, v in dict(inst.namedValues).items()) if hasattr(inst, 'namedValues') else None
                if got != syn['bits']:
                    bad.append('constraints: %s named bits %r, JSON bits %r' % (key, got, syn['bits']))
    if 'default' in aspects and cls == 'objecttype' and 'default' in rec:
        d = rec['default'].get('default', rec['default'])
        try:
            inst = obj.getSyntax()
            fmt, val = d.get('format'), d.get('value')
            if fmt == 'bits' and not val['bits'] and not inst.hasValue():
                pass                        # DEFVAL { { } }: no bit set; pyasn1 has no way to say "empty default"
            elif not inst.hasValue():
                bad.append('default: %s has no default value, JSON %r' % (key, d))
            elif fmt == 'decimal':
                if int(inst) != int(val):
                    bad.append('default: %s is %r, JSON %r' % (key, int(inst), d))
            elif fmt in ('hex', 'bin') and d.get('basetype') in ('Integer', 'Integer32'):
                if int(inst) != int(val):
                    bad.append('default: %s is %r, JSON %r' % (key, int(inst), d))
            elif fmt == 'hex' and len(val) % 2:
                pass                        # not a whole number of octets: malformed for an OCTET STRING (RFC 2578 7.9), padding is anybody's guess
            elif fmt == 'hex':
                want = bytes.fromhex(val)
                if bytes(inst) != want:
                    bad.append('default: %s is %r, JSON %r' % (key, bytes(inst), d))
            elif fmt == 'string':
                if bytes(inst) != val.encode('utf-8'):
                    bad.append('default: %s is %r, JSON %r' % (key, bytes(inst), d))
            elif fmt == 'enum':
                enum = (rec['syntax'].get('constraints') or {}).get('enumeration')
                want = enum.get(val) if enum else None
                if want is None:
                    names = dict(inst.namedValues)
                    want = names.get(val)
                if want is None or int(inst) != int(want):
                    bad.append('default: %s is %r, JSON %r' % (key, int(inst), d))
            elif fmt == 'oid':
                import ast as _ast
                want = tuple(_ast.literal_eval(val)) if val.startswith('(') else tuple(int(x) for x in val.split('.'))
                if tuple(inst) != want:
                    bad.append('default: %s is %r, JSON %r' % (key, tuple(inst), d))
            elif fmt == 'bits':
                positions = sorted(val['bits'].values())
                want = bytearray((max(positions) // 8 + 1) if positions else 0)
                for p_ in positions:
                    want[p_ // 8] |= 0x80 >> (p_ % 8)
                if bytes(inst) != bytes(want):
                    bad.append('default: %s is %r, JSON %r' % (key, bytes(inst), d))
        except Exception as exc:
            bad.append('default: %s: %s %s' % (key, exc.__class__.__name__, str(exc)[:120]))
    if 'refs' in aspects:
        if cls == 'objecttype' and rec.get('nodetype') == 'row':
            if 'indices' in rec:
                want = tuple((int(i['implied']), i['module'], i['object']) for i in rec['indices'])
                got = tuple((int(a), b, c) for a, b, c in obj.getIndexNames())
                if got != want:
                    bad.append('refs: %s index names %r, JSON %r' % (key, got, want))
            if 'augmention' in rec:
                a = rec['augmention']
                base = None
                for m_, table in docs.items():
                    pass
                try:
                    got = tuple(obj.getIndexNames())
                except Exception as exc:
                    got = repr(exc)
                if not got:
                    bad.append('refs: augmenting row %s has no index names (augments %r)' % (key, a))
        if cls in ('notificationtype', 'objectgroup', 'notificationgroup') and 'objects' in rec:
            want = tuple((o['module'], o['object']) for o in rec['objects'])
            got = tuple(tuple(x) for x in obj.getObjects())
            if got != want:
                bad.append('refs: %s objects %r, JSON %r' % (key, got, want))
        if cls == 'modulecompliance' and 'modulecompliance' in rec:
            want = tuple((o['module'], o['object']) for o in rec['modulecompliance'])
            got = tuple(tuple(x) for x in obj.getObjects())
            if got != want:
                bad.append('refs: %s compliance objects %r, JSON %r' % (key, got, want))
    if 'texts' in aspects and not isinstance(obj, type):
        for field, getter in (('description', 'getDescription'), ('reference', 'getReference'), ('units', 'getUnits'),
                              ('organization', 'getOrganization'), ('contactinfo', 'getContactInfo'),
                              ('status', 'getStatus'), ('lastupdated', 'getLastUpdated'), ('productrelease', 'getProductRelease')):
            if hasattr(obj, getter):
                try:
                    got = getattr(obj, getter)()
                except Exception as exc:
                    got = 'exception %r' % (exc,)
                want = rec.get(field, '')
                if field not in rec:
                    # (pysnmp getters raise AttributeError for texts that were never set)
                    if isinstance(got, str) and got.strip() and not got.startswith('exception') and field not in ('status', 'lastupdated'):
                        bad.append('texts: %s %s is %r although the JSON document has none' % (key, field, got))
                    continue
                if isinstance(got, str) and got.startswith('exception') or got == '' or got is None:
                    continue        # not emitted by the pysnmp backend at all: C15 speaks about the texts that ARE emitted
                if _ws(got) != _ws(want):
                    bad.append('texts: %s %s is %r, JSON %r' % (key, field, got, want))
            elif field in rec and field not in ('status', 'lastupdated'):
                pass
        if cls == 'moduleidentity' and 'revisions' in rec:
            try:
                got = tuple(obj.getRevisions())
            except Exception as exc:
                got = repr(exc)
            if len(got) != len(rec['revisions']):
                bad.append('texts: %s revisions %r, JSON %r' % (key, got, rec['revisions']))
    if 'texts' in aspects and isinstance(obj, type) and cls == 'textualconvention':
        for field, attr in (('description', 'description'), ('displayhint', 'displayHint'), ('status', 'status'), ('reference', 'reference')):
            want = rec.get(field, '')
            got = getattr(obj, attr, '')
            if field == 'status' and field not in rec:
                continue
            if not got and field != 'status':
                continue
            if _ws(got or '') != _ws(want):
                bad.append('texts: TC %s %s is %r, JSON %r' % (key, field, got, want))
    return bad


ALL_ASPECTS = ('kind', 'oid', 'access', 'basetype', 'constraints', 'default', 'refs', 'texts')


_SHIPPED = {}


def shipped(name):
    """is `name` a module pysnmp ships (loadable without being generated here)?"""
    if name not in _SHIPPED:
        from pysnmp.smi.builder import MibBuilder
        try:
            MibBuilder().loadModules(name)
            _SHIPPED[name] = True
        except Exception:
            _SHIPPED[name] = False
    return _SHIPPED[name]


def differences(tokmods, dialect='smiV2', genTexts=True, textFilter=None, aspects=ALL_ASPECTS, modules=None):
    """list of mismatch strings between the loaded pysnmp modules and the JSON documents (empty = agreement)"""
    with tok._untraced():
        trees = []
        for t in tokmods:
            trees.extend(tok.parse_tokens(t, dialect))
    return differences_trees(trees, None, genTexts, textFilter, aspects, modules)


def differences_trees(trees, extra_symtab=None, genTexts=True, textFilter=None, aspects=ALL_ASPECTS, modules=None):
    """as differences(), from syntax trees; returns None (not applicable) when a dependency is neither among the trees
    nor shipped with pysnmp (it could not be loaded for reasons that have nothing to do with the code under test)"""
    with tok._untraced():
        return _differences_trees(trees, extra_symtab, genTexts, textFilter, aspects, modules)


def _differences_trees(trees, extra_symtab, genTexts, textFilter, aspects, modules):
    try:
        r = generate_and_load_trees(trees, extra_symtab, genTexts, textFilter, load=False)
    except error.PySmiError as exc:
        return None                     # the JSON backend rejects the module: nothing to compare ("for every MIB that compiles")
    for mod in r.names:
        for dep in r.docs[mod].get('imports', {}):
            if dep != 'class' and dep not in r.names and not shipped(dep):
                return None
    try:
        r = generate_and_load_trees(trees, extra_symtab, genTexts, textFilter)
    except error.PySmiError as exc:
        return ['pipeline: %s' % str(exc)[:200]]
    if r.errors:
        return list(r.errors)
    bad = []
    for mod in r.names:
        if modules is not None and mod not in modules:
            continue
        doc = r.docs[mod]
        syms = r.syms.get(mod, {})
        for key, rec in doc.items():
            if key in ('imports', 'meta') or not isinstance(rec, dict):
                continue
            if key not in syms:
                bad.append('export: %s::%s is in the JSON document but not exported by the loaded pysnmp module' % (mod, key))
                continue
            try:
                bad.extend(compare_symbol(mod, key, rec, syms[key], r.docs, aspects))
            except Exception as exc:
                bad.append('compare: %s::%s: %s %s' % (mod, key, exc.__class__.__name__, str(exc)[:160]))
    return bad


def _plain(x):
    """JSON's view of a context: dicts with string keys, lists, scalars"""
    if isinstance(x, dict):
        return dict((str(k), _plain(v)) for k, v in x.items())
    if isinstance(x, (list, tuple)):
        return [_plain(v) for v in x]
    return x


def json_document_differences(trees, extra_symtab, genTexts, textFilter, ctxs):
    """render the JSON documents of `trees` with the REAL template and compare json.loads(text) with the captured contexts"""
    import copy
    with tok._untraced():
        j = _real_jinja()
        old = _jsondoc.jinja2
        _jsondoc.jinja2 = j
        bad = []
        try:
            trees = copy.deepcopy(list(trees))
            sg = _symtable.SymtableCodeGen()
            symtab = dict(copy.deepcopy(extra_symtab) if extra_symtab else {})
            for tree in trees:
                mi, st = sg.genCode(tree, symtab)
                symtab[mi.name] = st
            kw = dict(genTexts=genTexts)
            if textFilter is not None:
                kw['textFilter'] = textFilter
            jg = _jsondoc.JsonCodeGen()
            for tree in trees:
                try:
                    mi, text = jg.genCode(tree, symtab, **kw)
                except error.PySmiError as exc:
                    bad.append('json: %s: real rendering failed: %s' % (tree[0], str(exc)[:160]))
                    continue
                try:
                    doc = json.loads(text)
                except ValueError as exc:
                    bad.append('json: %s: the rendered text is not valid JSON: %s' % (tree[0], exc))
                    continue
                want = _plain(ctxs.get(mi.name))
                if doc != want:
                    keys = sorted(set(doc) ^ set(want or {})) or [k for k in doc if doc[k] != (want or {}).get(k)]
                    bad.append('json: %s: rendered document differs from the context handed to the template at %s' % (mi.name, keys[:4]))
        finally:
            _jsondoc.jinja2 = old
        return bad
