"""C17: grammar relaxations only add accepted inputs and mean what they say.

* LR (direct solver obligation, unbounded input length): Datalog simulation between the real LALR tables (engine/lr.py)
  for the pairs where the larger dialect only ADDS alternatives.
* differential (TOK + XH): sentence families parsed under the smaller and the larger dialect give the identical tree -
  this also covers the overridden p_* actions and the two relaxations that restructure productions
  (lowcaseIdentifier, curlyBracesAroundEnterpriseInTrap), for which table simulation is not applicable.
* documented breakages (TOK + XH): each malformed construct, inserted at a symbolic applicable position, is rejected by
  the strict dialect, accepted by the relaxed one and yields the tree of the corrected sentence.
* lexer tables and unknown options (XH).
"""
from harness import tok, families as f, smimodel as m
from harness.tok import seq, LC, UC
from pysmi import error
from pysmi.parser import dialect as _dialect
from pysmi.parser.smi import parserFactory, relaxedGrammar
from pysmi.lexer.smi import lexerFactory

OPTIONS = sorted(relaxedGrammar)
ADDITIVE = [o for o in OPTIONS if o not in ('lowcaseIdentifier', 'curlyBracesAroundEnterpriseInTrap')]
V1 = 'supportSmiV1Keywords+supportIndex'
V1ADD = '+'.join(sorted(set(ADDITIVE) | set(['supportSmiV1Keywords', 'supportIndex'])))


def pick(table, k):
    for i in range(len(table)):
        if k == i:
            return table[i]
    return table[0]


def _parse(toks, dialect):
    try:
        return 'ok', tok.parse_tokens(toks, dialect)
    except error.PySmiParserError as e:
        return 'perr', e.lineno
    except Exception as e:
        return 'exc', type(e).__name__


def _family(fam, x, y, z, a, b):
    """a spread of family sentences driven by small symbolic ints x,y,z and numbers a,b"""
    if fam == 0:
        return f.f_object_type(x % 9, y % 2 == 0, True, True, y >= 2, z % 3, 1 + (z % 2), x % 2 == 0, False, y % 7, a, a, b)
    if fam == 1:
        return f.f_module_identity(x % 3, False)
    if fam == 2:
        return f.f_module_compliance(x % 2 == 0, y % 3, z % 2, x % 2, z % 3, y % 2 == 0)
    if fam == 3:
        return f.f_type(x % 4, y % 9, z % 2 == 0, x % 2 == 0, a, b)
    if fam == 4:
        return f.f_notification_type([-1, 1, 2, 3][x % 4], y % 2 == 0)
    if fam == 5:
        return f.f_agent_capabilities(x % 2 == 0, y % 2 == 0, z % 2 == 0)
    if fam == 6:
        return f.f_group(x % 2 == 0, 1 + y % 3, z % 2 == 0)
    if fam == 7:
        return f.f_object_identity(x % 2 == 0, y % 4, a % 4294967296 if a >= 0 else 0, 5)
    return f.f_value(x % 4, a % 4294967296 if a >= 0 else 0, 7)


def differential(bi: int, fam: int, x: int, y: int, z: int, a: int, b: int) -> bool:
    """
    requires: 0 <= bi < len(LARGER) and 0 <= fam <= 8 and 0 <= x <= 8 and 0 <= y <= 8 and 0 <= z <= 5
    requires: -4294967295 <= a <= 4294967295 and -4294967295 <= b <= 4294967295
    """
    big = pick(LARGER, bi)
    sent = _family(fam, x, y, z, a, b)
    mod = f.module('ZQMOD', 1 + x % 2, 1 + y % 3, z % 2 == 0, False, [sent])
    ra = _parse(mod.toks, 'smiV2')
    rb = _parse(mod.toks, big)
    if ra[0] != 'ok':
        return ra[0] == 'perr'          # not a sentence of the smaller dialect: nothing to compare (must still be a located error)
    return rb[0] == 'ok' and rb[1] == ra[1]


LARGER = ['smiV1', 'smiV1Relaxed'] + OPTIONS


def v1_differential(fam: int, nvars: int, x: int, number: int) -> bool:
    """
    requires: 0 <= fam <= 1 and -1 <= nvars <= 3 and nvars != 0 and 0 <= x <= 3 and 0 <= number <= 4294967295
    """
    # sentences of the smiV1 dialect (TRAP-TYPE, SMIv1 INDEX types) under smiV1Relaxed
    if fam == 0:
        sent = f.f_trap_type(nvars, x % 2 == 0, x >= 2, number, x == 1)
    else:
        sent = f.f_object_type(0, False, True, True, False, 1, 2, False, False, 0, 0, 0, 0, dialect='smiV1')
    mod = f.module('ZQMOD', 1, 2, False, False, [sent], 'smiV1')
    ra = _parse(mod.toks, 'smiV1')
    rb = _parse(mod.toks, 'smiV1Relaxed')
    return ra[0] == 'ok' and rb[0] == 'ok' and ra[1] == rb[1]


def _imports_with_trailing_comma(nclauses, which):
    def build(broken):
        toks = seq('ZQMOD DEFINITIONS ::= BEGIN IMPORTS')
        for i in range(nclauses):
            toks += seq('zqa%d , zqb%d' % (i, i))
            if broken and i == which:
                toks.append((',', ','))
            toks += seq('FROM ZQFROM-%d' % i)
        toks += seq('; zqv OBJECT IDENTIFIER ::= { iso 3 } END')
        return toks
    return build(True), build(False)


def _sequence_with_trailing_comma(n):
    def build(broken):
        items = ' , '.join('zqc%d Integer32' % i for i in range(n))
        return seq('ZQMOD DEFINITIONS ::= BEGIN ZQSeq ::= SEQUENCE { %s %s } END' % (items, ',' if broken else ''))
    return build(True), build(False)


def _enum(n, which, kind):
    """kind 0: comma missing after item `which`; 1: trailing comma; 2: upper-case label on item `which`"""
    def build(broken):
        toks = seq('ZQMOD DEFINITIONS ::= BEGIN zqo OBJECT-TYPE SYNTAX INTEGER {')
        for i in range(n):
            name = ('Zqe%d' if (kind == 2 and i == which) else 'zqe%d') % i
            if kind == 2 and i == which and broken:
                toks.append(UC(name))
            else:
                toks.append(LC(name))
            toks += seq('( %d )' % (i + 1))
            last = i == n - 1
            if not last:
                if not (broken and kind == 0 and i == which):
                    toks.append((',', ','))
            elif broken and kind == 1:
                toks.append((',', ','))
        toks += seq('} MAX-ACCESS read-only STATUS current DESCRIPTION "zq d" ::= { iso 3 } END')
        return toks
    return build(True), build(False)


def _notification_upper():
    def build(broken):
        name = UC('ZqNotif') if broken else LC('ZqNotif')
        return seq('ZQMOD DEFINITIONS ::= BEGIN', name, 'NOTIFICATION-TYPE STATUS current DESCRIPTION "zq d" ::= { iso 3 } END')
    return build(True), build(False)


def _trap_braces(nvars):
    def build(broken):
        t = seq('ZQMOD DEFINITIONS ::= BEGIN zqtrap TRAP-TYPE ENTERPRISE', dialect='smiV1')
        t += seq('{ zqent }' if broken else 'zqent', dialect='smiV1')
        if nvars:
            t += seq('VARIABLES { %s }' % ' , '.join('zqv%d' % i for i in range(nvars)), dialect='smiV1')
        t += seq('DESCRIPTION "zq d" ::= 7 END', dialect='smiV1')
        return t
    return build(True), build(False)


def _no_cells():
    def build(broken):
        return seq('ZQMOD DEFINITIONS ::= BEGIN zqac AGENT-CAPABILITIES PRODUCT-RELEASE "zq r" STATUS current DESCRIPTION "zq d" '
                   'SUPPORTS ZQ-MIB INCLUDES { zqg } VARIATION zqo %s DESCRIPTION "zq v" ::= { iso 3 } END'
                   % ('CREATION-REQUIRES { }' if broken else ''))
    return build(True), build(False)


BREAKAGES = ['commaAtTheEndOfImport', 'commaAtTheEndOfSequence', 'mixOfCommasAndSpaces-missing', 'mixOfCommasAndSpaces-trailing',
             'uppercaseIdentifier', 'lowcaseIdentifier', 'curlyBracesAroundEnterpriseInTrap', 'noCells']


def breakage(bk: int, n: int, which: int) -> bool:
    """
    requires: 0 <= bk < len(BREAKAGES) and 1 <= n <= 3 and 0 <= which < n
    """
    name = pick(BREAKAGES, bk)
    strict, relaxed = 'smiV2', name.split('-')[0]
    if name == 'commaAtTheEndOfImport':
        broken, fixed = _imports_with_trailing_comma(n, which)
    elif name == 'commaAtTheEndOfSequence':
        broken, fixed = _sequence_with_trailing_comma(n)
    elif name == 'mixOfCommasAndSpaces-missing':
        if n < 2 or which >= n - 1:
            return True
        broken, fixed = _enum(n, which, 0)
    elif name == 'mixOfCommasAndSpaces-trailing':
        broken, fixed = _enum(n, which, 1)
    elif name == 'uppercaseIdentifier':
        broken, fixed = _enum(n, which, 2)
    elif name == 'lowcaseIdentifier':
        broken, fixed = _notification_upper()
    elif name == 'curlyBracesAroundEnterpriseInTrap':
        broken, fixed = _trap_braces(n - 1)
        strict, relaxed = 'supportSmiV1Keywords', 'supportSmiV1Keywords+curlyBracesAroundEnterpriseInTrap'
    else:
        broken, fixed = _no_cells()
    # the strict dialect rejects the malformed construct with a located error ...
    rs = _parse(broken, strict)
    if rs[0] != 'perr':
        return False
    # ... the relaxation accepts it and yields the tree of the corrected text
    rb = _parse(broken, relaxed)
    rf = _parse(fixed, relaxed)
    rf0 = _parse(fixed, strict)
    if rb[0] != 'ok' or rf[0] != 'ok' or rf0[0] != 'ok':
        return False
    return rb[1] == rf[1] and rf[1] == rf0[1]


def lexer_tables(oi: int) -> bool:
    """
    requires: 0 <= oi < len(OPTIONS)
    """
    opt = pick(OPTIONS, oi)
    base = lexerFactory()
    big = lexerFactory(**{opt: True})
    if opt != 'supportSmiV1Keywords':
        return big.reserved == base.reserved and big.forbidden_words == base.forbidden_words and set(big.tokens) == set(base.tokens)
    added = set(big.reserved) - set(base.reserved)
    if added != set(['NetworkAddress', 'MAX']) or set(base.reserved) - set(big.reserved):
        return False
    for k in base.reserved:
        if big.reserved[k] != base.reserved[k]:
            return False
    return set(base.forbidden_words) - set(big.forbidden_words) == set(['MAX']) and not (set(big.forbidden_words) - set(base.forbidden_words))


BAD_NAMES = ['foo', 'supportIndexx', 'nocells', 'NOCELLS', '', 'supportSmiV1', 'relaxed']


def unknown_option(i: int, val: int, factory: int) -> bool:
    """
    requires: 0 <= i < len(BAD_NAMES) and 0 <= val <= 3 and 0 <= factory <= 1
    """
    name = pick(BAD_NAMES, i)
    value = pick([True, 1, 'yes', False], val)
    fac = parserFactory if factory == 0 else lexerFactory
    try:
        fac(**{name: value})
        raised = False
    except error.PySmiError:
        raised = True
    except Exception:
        return False
    # a false value does not switch the option on, so it is not "asked for"
    return raised == bool(value)


# ---- overridden grammar actions agree with the base actions on the base alternatives --------------------------------------
# The Datalog simulation shows that a text accepted by the smaller dialect is reduced by the SAME productions under the
# larger one. "Identical tree" then needs each relaxed p_* function to compute, for an alternative the base rule also has,
# the value the base function computes. Children are picked by symbolic index from a pool of everything a sub-tree can be
# (falsy values included: 0, '', [], None).

CHILD_POOL = [None, 0, '', 'name', 7, ('name', 7), [], ['a', 'b'], ('objectIdentifier', [0]), ('objectIdentifier', ['name']),
              ('objectIdentifier', [('name', 7)]), ('tag', 'x', [('a', 1)]), [('a', 1), ('b', 2)]]


# what a non-terminal with a fixed result shape can be (children outside that shape cannot reach the action)
_OID = lambda first: ('objectIdentifier', [first, 5])
SYMBOL_POOL = {'ObjectName': [_OID(0), _OID(7), _OID('name'), _OID(('name', 7)), _OID(('name', 0)), ('objectIdentifier', [0]), ('objectIdentifier', ['name'])]}


def _alternatives(fn):
    """right-hand sides (lists of symbols) of a PLY rule docstring"""
    doc = fn.__doc__
    head, rest = doc.split(':', 1)
    return head.strip(), [alt.split() for alt in rest.replace('\n', ' ').split('|')]


def _overrides():
    from pysmi.parser import smi as _smi
    out = []
    for opt in sorted(_smi.relaxedGrammar):
        for fn in _smi.relaxedGrammar[opt]:
            base = getattr(_smi.SmiV2Parser, fn.__name__, None)
            if base is None:
                continue                        # a rule the base grammar does not have (new non-terminal)
            bh, balts = _alternatives(base)
            oh, oalts = _alternatives(fn)
            for alt in balts:
                if alt in oalts and alt != ['empty']:
                    out.append((opt, fn.__name__, alt))
    return out


OVERRIDES = _overrides()


def override_action(oi: int, c1: int, c2: int, c3: int, c4: int) -> bool:
    """
    requires: 0 <= oi < len(OVERRIDES)
    requires: 0 <= c1 < len(CHILD_POOL) and 0 <= c2 < len(CHILD_POOL) and 0 <= c3 < len(CHILD_POOL) and 0 <= c4 < len(CHILD_POOL)
    """
    from pysmi.parser import smi as _smi
    opt, name, alt = pick(OVERRIDES, oi)
    base = getattr(_smi.SmiV2Parser, name)
    over = None
    for fn in _smi.relaxedGrammar[opt]:
        if fn.__name__ == name:
            over = fn
    picks = [c1, c2, c3, c4]
    kids = []
    k = 0
    for sym in alt:
        if sym.startswith("'") or sym.isupper() or sym.replace('_', '').isupper():
            kids.append(sym.strip("'"))                          # a token: its text
        else:
            pool = SYMBOL_POOL.get(sym, CHILD_POOL)
            kids.append(pick(pool, picks[k % 4] % len(pool)))
            k += 1
    if len(alt) > 9:
        return True
    pa = [None] + list(kids)
    pb = [None] + list(kids)
    ea = eb = None
    try:
        base(None, pa)
    except Exception as e:
        ea = type(e).__name__
    try:
        over(None, pb)
    except Exception as e:
        eb = type(e).__name__
    if ea or eb:
        return ea == eb                                         # a child the base action cannot digest: both refuse alike
    return pa[0] == pb[0]


def conditions(prop, tier):
    q = tier == 'quick'
    t = 280 if q else 1700
    out = []
    out.append(dict(name='C17.override-actions', fn='override_action', fixed={}, timeout=t,
                    extra_pre=['c3 == 0 and c4 == 0'],
                    bounds='every relaxed p_* function vs the base function of the same rule, on every alternative both have (%d), children picked by '
                           'symbolic index from %d sub-tree values incl. the falsy ones (0, "", [], None): same result' % (len(OVERRIDES), len(CHILD_POOL))))
    larger = [0, 1, LARGER.index('lowcaseIdentifier'), LARGER.index('curlyBracesAroundEnterpriseInTrap')] if q else range(len(LARGER))
    for bi in larger:
        if not buildable(LARGER[bi]):
            continue                    # "every BUILDABLE single option": e.g. supportIndex alone refers to an undefined token
        for fam in range(9):
            if q and fam in (1, 5, 6, 7) and bi > 1:
                continue
            out.append(dict(name='C17.diff.%s.fam%d' % (LARGER[bi], fam), fn='differential', fixed=dict(bi=bi, fam=fam), timeout=t,
                            extra_pre=['x <= 3 and y <= 3 and z <= 2'] if q else [],
                            bounds='family %d sentences (shape ints x,y,z; numbers a,b unbounded in +-(2^32-1)) parsed by the real smiV2 parser and by '
                                   'the real %s parser: identical trees' % (fam, LARGER[bi])))
    out.append(dict(name='C17.diff.smiV1-vs-smiV1Relaxed', fn='v1_differential', fixed={}, timeout=t,
                    bounds='TRAP-TYPE / SMIv1 INDEX sentences under smiV1 and smiV1Relaxed: identical trees'))
    for bk in range(len(BREAKAGES)):
        out.append(dict(name='C17.breakage.%s' % BREAKAGES[bk], fn='breakage', fixed=dict(bk=bk), timeout=t,
                        bounds='malformed construct %s in a list of 1..3 items at a symbolic position: rejected by the strict dialect, accepted by '
                               'the relaxation, tree equals that of the corrected sentence' % BREAKAGES[bk]))
    out.append(dict(name='C17.lexer-tables', fn='lexer_tables', fixed={}, timeout=t, bounds='reserved/forbidden/token tables of every single option vs the base lexer'))
    out.append(dict(name='C17.unknown-option', fn='unknown_option', fixed={}, timeout=t,
                    bounds='%d unknown option names x truthy/falsy values x parserFactory/lexerFactory' % len(BAD_NAMES)))
    return out


def selftests(prop):
    return [('override_action', dict(oi=7, c1=0, c2=0, c3=0, c4=0)),
            ('differential', dict(bi=1, fam=0, x=3, y=3, z=1, a=5, b=-6)),
            ('differential', dict(bi=5, fam=4, x=1, y=0, z=0, a=0, b=0)),
            ('v1_differential', dict(fam=0, nvars=2, x=0, number=7)), ('v1_differential', dict(fam=1, nvars=1, x=0, number=7)),
            ('breakage', dict(bk=0, n=2, which=1)), ('breakage', dict(bk=2, n=3, which=1)), ('breakage', dict(bk=6, n=2, which=0)),
            ('breakage', dict(bk=7, n=1, which=0)), ('breakage', dict(bk=4, n=2, which=1)), ('breakage', dict(bk=5, n=1, which=0)),
            ('lexer_tables', dict(oi=8)), ('unknown_option', dict(i=0, val=0, factory=0))]


# ---- direct solver obligations: LR table simulation ----------------------------------------------------------------

_BUILDABLE = {}


def buildable(name):
    if name not in _BUILDABLE:
        try:
            tok.get_parser(name)
            _BUILDABLE[name] = True
        except Exception:
            _BUILDABLE[name] = False
    return _BUILDABLE[name]


def lr_pairs(tier):
    pairs = [('smiV2', {}, 'smiV1', dict(_dialect.smiV1)),
             ('smiV1', dict(_dialect.smiV1), 'smiV1+additive', dict((o, True) for o in V1ADD.split('+')))]
    singles = ADDITIVE if tier != 'quick' else ['commaAtTheEndOfImport', 'mixOfCommasAndSpaces']
    for o in singles:
        if buildable(o):
            pairs.append(('smiV2', {}, o, {o: True}))
    if tier != 'quick':
        # "every dialect that enables a SUPERSET of its relaxations": every two-option combination of the additive options
        # against each of its members, and option subsets of size 3..6 drawn with VERIF_SEED against one member and against
        # the subset with one option removed
        import itertools
        import os
        import random
        adds = [o for o in ADDITIVE if buildable(o)]
        for a, b in itertools.combinations(adds, 2):
            both = '+'.join(sorted((a, b)))
            if not buildable(both):
                continue
            for o in (a, b):
                pairs.append((o, {o: True}, both, {a: True, b: True}))
        rnd = random.Random(int(os.environ.get('VERIF_SEED', '0') or 0) + 17)
        pool = sorted(set(adds + ['supportSmiV1Keywords']))
        for _ in range(6):
            k = rnd.randint(3, min(6, len(pool)))
            sub = sorted(rnd.sample(pool, k))
            name = '+'.join(sub)
            if 'supportIndex' in sub and 'supportSmiV1Keywords' not in sub:
                continue                            # not buildable on its own
            if not buildable(name):
                continue
            drop = sub[rnd.randrange(len(sub))]
            less = [o for o in sub if o != drop]
            if 'supportIndex' in less and 'supportSmiV1Keywords' not in less:
                less = [o for o in less if o != 'supportIndex']
            if buildable('+'.join(less)):
                pairs.append(('+'.join(less), dict((o, True) for o in less), name, dict((o, True) for o in sub)))
    return pairs


def solver_obligations(prop, tier, ctx):
    import json
    import os
    import subprocess
    import concurrent.futures
    pairs = lr_pairs(tier)

    def run(pair):
        na, oa, nb, ob = pair
        p = subprocess.run([ctx['py'], os.path.join(ctx['verif'], 'engine', 'lr_worker.py'), json.dumps(oa), json.dumps(ob)],
                           stdout=subprocess.PIPE, stderr=subprocess.PIPE, env=dict(os.environ, VERIF_REPO=ctx['repo']), timeout=1500)
        out = p.stdout.decode()
        i = out.rfind('@@RESULT@@')
        if i < 0:
            return pair, dict(verdict='error', message=p.stderr.decode()[-800:])
        return pair, json.loads(out[i + 10:])
    recs = []
    with concurrent.futures.ThreadPoolExecutor(max_workers=8) as ex:
        for pair, r in ex.map(run, pairs):
            na, oa, nb, ob = pair
            rec = dict(cond='C17.lr.%s<=%s' % (na, nb), fn='LALR tables of parserFactory(%s) vs parserFactory(%s)' % (sorted(oa), sorted(ob)),
                       paths=0, queries=r.get('queries', 0), solver_cpu_s=r.get('seconds', 0), verdict=r.get('verdict'),
                       bounds='UNBOUNDED input length: Datalog reachability over %s x %s LALR states, %s facts'
                              % (r.get('statesA'), r.get('statesB'), r.get('facts')))
            if r.get('verdict') == 'unsat':
                rec.update(status='held', confirmed_paths=1)
            elif r.get('verdict') == 'sat':
                w = r.get('witness')
                if w and w.get('confirmed'):
                    rel = 'replays/C17-lr-%s-%s.py' % (na, nb.replace('+', '_'))
                    os.makedirs(os.path.join(ctx['verif'], 'replays'), exist_ok=True)
                    with open(os.path.join(ctx['verif'], rel), 'w') as fh:
                        fh.write('import os, sys, json\nsys.path.insert(0, os.environ.get("VERIF_REPO", "/repo"))\n'
                                 'sys.path.insert(0, os.path.dirname(os.path.dirname(os.path.abspath(__file__))))\n'
                                 'from engine.lr_worker import replay\nsys.exit(1 if replay(%r, %r, %r) else 0)\n'
                                 % (oa, ob, w['tokens']))
                    rec.update(status='violation', counterexample=w, replay=rel,
                               message='token prefix %s is viable under %s but rejected under %s (%s)' % (w['tokens'], na, nb, w.get('why')))
                else:
                    rec.update(status='inconclusive', reason='tables differ structurally (%s) but the witness prefix is treated alike by both real '
                               'parsers: simulation not applicable to this pair' % (w and w.get('why')))
            else:
                rec.update(status='inconclusive', reason='solver: %s %s' % (r.get('verdict'), r.get('message', '')))
            recs.append(rec)
    return recs


def warmup(fixed):
    """build (untraced) the dialect parsers a shard is going to use"""
    names = ['smiV2']
    if 'bi' in fixed:
        names.append(LARGER[fixed['bi']])
    if 'bk' in fixed:
        name = BREAKAGES[fixed['bk']]
        names.append(name.split('-')[0])
        if name == 'curlyBracesAroundEnterpriseInTrap':
            names += ['supportSmiV1Keywords', 'supportSmiV1Keywords+curlyBracesAroundEnterpriseInTrap']
    for n in names:
        try:
            tok.get_parser(n)
        except Exception:
            pass
