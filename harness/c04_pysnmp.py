"""C04 (PARTIAL): pysnmp output agrees with the JSON backend and a compiled module set loads together.

The full statement is about text produced by a Jinja2 template, compiled by CPython and executed by pysnmp - none of
which can be executed symbolically here. Decided:
 (a) context agreement (TOK + XH): the context handed to the pysnmp template holds the same symbols with the same
     OID / class / node type / base type / access as the JSON context;
 (b) import/export closure (XH + static template facts): a symbol of symbolic kind declared in module X and imported by
     module Y belongs to a class that X's generated code exports;
 (c) identifier paste-site safety (RX): the language of the real lexer's identifier rules, mapped through the
     template's replace('-','_'), vs Python identifiers minus keywords - decided by z3's regex theory; witnesses are
     replayed by generating the module with the real pipeline and compiling it.
"""
import keyword
import os

from harness import tok, smimodel as m
from harness.tok import seq
from harness import c03_json
from pysmi import error
from pysmi.codegen.pysnmp import PySnmpCodeGen

KINDS = c03_json.KINDS[:11]          # declaration kinds that yield a symbol
NAMES = ['alpha', 'be-ta', 'gammaX9']
UNAMES = ['MyType', 'My-Type', 'Other']


def pick(table, k):
    for i in range(len(table)):
        if k == i:
            return table[i]
    return table[0]


def _two(k0, k1, v0, v1):
    decls = []
    for i, (k, v) in enumerate(((k0, v0), (k1, v1))):
        kind = pick(KINDS, k)
        if kind == 'objectType':
            syn = pick([seq('Integer32'), seq('OCTET STRING ( SIZE ( 0 .. 8 ) )'), seq('Counter64'), seq('INTEGER { oid ( 1 ) , class ( 2 ) , a-b ( 3 ) }'),
                        seq('TimeTicks')], v)
            acc = pick(['read-only', 'read-write', 'not-accessible', 'accessible-for-notify', 'read-create'], v)
            decls.append(m.object_type(NAMES[i], syn, m.oid('iso', 3, i + 1), access=acc, descr=m.text('d')))
        else:
            d, _n = c03_json.decl(kind, NAMES[i], UNAMES[i], i + 1)
            decls.append(d)
    return m.module('M', [('SNMPv2-SMI', ['Counter64', 'TimeTicks'])], decls)


def agreement(k0: int, k1: int, v0: int, v1: int) -> bool:
    """
    requires: 0 <= k0 < 11 and 0 <= k1 < 11 and 0 <= v0 <= 4 and 0 <= v1 <= 4 and not (k0 == 4 and k1 == 4)
    """
    toks = _two(k0, k1, v0, v1)
    try:
        rj = tok.compile_trees(tok.parse_tokens(toks), backend='json', genTexts=True)
        rp = tok.compile_trees(tok.parse_tokens(toks), backend='pysnmp', genTexts=True)
    except error.PySmiError:
        return False
    cj, cp = rj.ctx['M'], rp.ctx['M']
    kj = [k for k in cj if k not in ('imports', 'meta')]
    kp = [k for k in cp if k not in ('imports', 'meta')]
    # sorting by OID for the template drops or duplicates nothing
    if sorted(kj) != sorted(kp) or len(set(kp)) != len(kp):
        return False
    for k in kj:
        a, b = cj[k], cp[k]
        if 'oid' in a:
            if tuple(int(x) for x in a['oid'].split('.')) != b.get('oid'):
                return False
        for key in ('class', 'nodetype', 'maxaccess', 'status'):
            if a.get(key) != b.get(key):
                return False
        ta = a.get('syntax', {}).get('type') if isinstance(a.get('syntax'), dict) else None
        tb = b.get('syntax', {}).get('type') if isinstance(b.get('syntax'), dict) else None
        if PySnmpCodeGen.SMI_TYPES.get(ta, ta) != tb:
            return False
    # IMPORTS are translated to pysnmp class names
    for mod, syms in cp['imports'].items():
        for s in syms:
            if s in PySnmpCodeGen.SMI_OBJECTS:
                return False
    return cp['meta']['module'] == 'M'


_EXPORTED = [None]


def exported_classes():
    """the classes the pysnmp template exports, read from the Jinja AST of the exportSymbols block"""
    if _EXPORTED[0] is None:
        import jinja2
        from jinja2 import nodes
        repo = os.environ.get('VERIF_REPO', '/repo')
        src = open(os.path.join(repo, 'pysmi/codegen/templates/pysnmp/mib-definitions.j2')).read()
        ast = jinja2.Environment().parse(src)
        found = None
        for blk in ast.find_all(nodes.Block):
            if blk.name == 'exports':
                for cmp_ in blk.find_all(nodes.Compare):
                    for op in cmp_.ops:
                        if op.op == 'in' and isinstance(op.expr, nodes.Tuple):
                            found = [e.value for e in op.expr.items if isinstance(e, nodes.Const)]
        if found is None:
            raise LookupError('exports block with a class tuple not found in the pysnmp template')
        _EXPORTED[0] = found
    return _EXPORTED[0]


def closure(k: int, hy: bool) -> bool:
    """
    requires: 0 <= k < 11
    """
    kind = pick(KINDS, k)
    lname, uname = ('ex-ported' if hy else 'exported'), ('Ex-Type' if hy else 'ExType')
    d, name = c03_json.decl(kind, lname, uname, 1)
    x = m.module('X-MIB', [], [d])
    user = m.value_decl('usesIt', m.oid(name, 1)) if name[0].islower() else m.object_type('usesIt', seq(name), m.oid('iso', 4), descr=m.text('d'))
    y = m.module('Y-MIB', [('X-MIB', [name])], [user])
    try:
        trees = tok.parse_tokens(x) + tok.parse_tokens(y)
        res = tok.compile_trees(trees, backend='pysnmp')
    except error.PySmiError:
        return False
    cx, cy = res.ctx['X-MIB'], res.ctx['Y-MIB']
    key = name.replace('-', '_')
    if name not in cy['imports'].get('X-MIB', []):
        return False
    if key not in cx:
        return False
    return cx[key]['class'] in exported_classes()


def type_order(perm: int, tc_mid: bool) -> bool:
    """
    requires: 0 <= perm < 6
    """
    # derived types must reach the template AFTER the local type they derive from (the template emits one Python class
    # per type in context order); names are chosen so that alphabetical order contradicts the dependency order
    import itertools
    decls = [m.type_decl('Zeta', seq('Integer32 ( 0 .. 100 )')),
             (m.textual_convention('Mid', seq('Zeta ( 0 .. 50 )')) if tc_mid else m.type_decl('Mid', seq('Zeta ( 0 .. 50 )'))),
             m.type_decl('Alpha', seq('Mid ( 0 .. 10 )') if not tc_mid else seq('Zeta ( 0 .. 10 )'))]
    order = pick(list(itertools.permutations(range(3))), perm)
    toks = m.module('M', [], [decls[i] for i in order] + [m.object_type('obj', seq('Alpha'), m.oid('iso', 3), descr=m.text('d'))])
    try:
        res = tok.compile_trees(tok.parse_tokens(toks), backend='pysnmp')
    except error.PySmiError:
        return False
    keys = [k for k in res.ctx['M'].keys()]
    parent = {'Mid': 'Zeta', 'Alpha': 'Zeta' if tc_mid else 'Mid'}
    for child, par in parent.items():
        same_block = res.ctx['M'][child]['class'] == res.ctx['M'][par]['class']
        if same_block and keys.index(par) > keys.index(child):
            return False
    return True


def conditions(prop, tier):
    t = 280 if tier == 'quick' else 1500
    return [dict(name='C04.context-agreement', fn='agreement', fixed={}, timeout=t,
                 bounds='2 declarations: every ordered pair of the 11 symbol-yielding kinds, 5 syntax/access variants each'),
            dict(name='C04.type-definition-order', fn='type_order', fixed={}, timeout=t,
                 bounds='chain of three derived types (optionally a TC in the middle) in every declaration order: in the context handed to the '
                        'pysnmp template a derived type follows the local type it derives from (same template block)'),
            dict(name='C04.export-closure', fn='closure', fixed={}, timeout=t,
                 bounds='a symbol of each of the 11 kinds (plain / hyphenated name) declared in X-MIB and imported by Y-MIB: its class is among '
                        'the classes the pysnmp template exports (read from the template)')]


def selftests(prop):
    return [('agreement', dict(k0=2, k1=10, v0=3, v1=0)), ('agreement', dict(k0=4, k1=7, v0=0, v1=0)),
            ('type_order', dict(perm=3, tc_mid=False)), ('type_order', dict(perm=5, tc_mid=True)),
            ('closure', dict(k=2, hy=True)), ('closure', dict(k=10, hy=False))]


def kf_plain_type(k):
    return k == 9


# ---- (c) identifier paste sites: z3 regex theory ----------------------------------------------------------------------

def replay_identifier(name):
    """generate the pysnmp module for a MIB that declares `name` and compile it; True = valid Python defining the symbol"""
    from harness import realpipe
    if name[0].isupper():
        mib = 'T-MIB DEFINITIONS ::= BEGIN\n%s ::= TEXTUAL-CONVENTION STATUS current DESCRIPTION "d" SYNTAX Integer32\nEND\n' % name
    else:
        mib = 'T-MIB DEFINITIONS ::= BEGIN\n%s OBJECT IDENTIFIER ::= { iso 3 }\nEND\n' % name
    try:
        code = realpipe.generate([mib], genTexts=False)['T-MIB']
        compile(code, 'T-MIB', 'exec')
    except Exception:
        return False
    return True


HEAD = 'IMPORTS OBJECT-TYPE, MODULE-IDENTITY, OBJECT-IDENTITY, NOTIFICATION-TYPE, Integer32 FROM SNMPv2-SMI\n' \
       '  TEXTUAL-CONVENTION FROM SNMPv2-TC\n  MODULE-COMPLIANCE, OBJECT-GROUP, NOTIFICATION-GROUP, AGENT-CAPABILITIES FROM SNMPv2-CONF'
XDECL = {
    'valueDeclaration': 'exported OBJECT IDENTIFIER ::= { iso 3 }',
    'objectIdentity': 'exported OBJECT-IDENTITY STATUS current DESCRIPTION "d" ::= { iso 3 }',
    'objectType': 'exported OBJECT-TYPE SYNTAX Integer32 MAX-ACCESS read-only STATUS current DESCRIPTION "d" ::= { iso 3 }',
    'notificationType': 'exported NOTIFICATION-TYPE STATUS current DESCRIPTION "d" ::= { iso 3 }',
    'moduleIdentity': 'exported MODULE-IDENTITY LAST-UPDATED "200001010000Z" ORGANIZATION "o" CONTACT-INFO "c" DESCRIPTION "d" ::= { iso 3 }',
    'objectGroup': 'exported OBJECT-GROUP OBJECTS { someObj } STATUS current DESCRIPTION "d" ::= { iso 3 }\n'
                   'someObj OBJECT-TYPE SYNTAX Integer32 MAX-ACCESS read-only STATUS current DESCRIPTION "d" ::= { iso 4 }',
    'notificationGroup': 'exported NOTIFICATION-GROUP NOTIFICATIONS { someNotif } STATUS current DESCRIPTION "d" ::= { iso 3 }\n'
                         'someNotif NOTIFICATION-TYPE STATUS current DESCRIPTION "d" ::= { iso 4 }',
    'moduleCompliance': 'exported MODULE-COMPLIANCE STATUS current DESCRIPTION "d" MODULE ::= { iso 3 }',
    'agentCapabilities': 'exported AGENT-CAPABILITIES PRODUCT-RELEASE "r" STATUS current DESCRIPTION "d" ::= { iso 3 }',
    'typeDeclaration': 'ExType ::= Integer32 (0..5)',
    'textualConvention': 'ExType ::= TEXTUAL-CONVENTION STATUS current DESCRIPTION "d" SYNTAX Integer32 (0..5)',
}


def load_witness(kind, table=False, hy=False):
    """X-MIB declares one symbol of `kind`; Y-MIB imports exactly that symbol and uses it; both are generated with the REAL
    template, executed against one MibBuilder; True = both load and export what they declare"""
    from harness import realpipe
    if table:
        xbody = ('bTable OBJECT-TYPE SYNTAX SEQUENCE OF BEntry MAX-ACCESS not-accessible STATUS current DESCRIPTION "d" ::= { iso 3 }\n'
                 'bEntry OBJECT-TYPE SYNTAX BEntry MAX-ACCESS not-accessible STATUS current DESCRIPTION "d" INDEX { b1 } ::= { bTable 1 }\n'
                 'BEntry ::= SEQUENCE { b1 Integer32 }\n'
                 'b1 OBJECT-TYPE SYNTAX Integer32 MAX-ACCESS read-only STATUS current DESCRIPTION "d" ::= { bEntry 1 }')
        name = 'bEntry'
        ybody = ('aTable OBJECT-TYPE SYNTAX SEQUENCE OF AEntry MAX-ACCESS not-accessible STATUS current DESCRIPTION "d" ::= { iso 5 }\n'
                 'aEntry OBJECT-TYPE SYNTAX AEntry MAX-ACCESS not-accessible STATUS current DESCRIPTION "d" AUGMENTS { bEntry } ::= { aTable 1 }\n'
                 'AEntry ::= SEQUENCE { a1 Integer32 }\n'
                 'a1 OBJECT-TYPE SYNTAX Integer32 MAX-ACCESS read-only STATUS current DESCRIPTION "d" ::= { aEntry 1 }')
        uses = 'aEntry'
    else:
        xbody = XDECL[kind]
        name = 'ExType' if kind in ('typeDeclaration', 'textualConvention') else 'exported'
        if name == 'ExType':
            ybody = 'usesIt OBJECT-TYPE SYNTAX ExType MAX-ACCESS read-only STATUS current DESCRIPTION "d" ::= { iso 9 }'
        else:
            ybody = 'usesIt OBJECT IDENTIFIER ::= { exported 1 }'
        uses = 'usesIt'
    if hy:
        xbody, ybody, name = xbody.replace('exported', 'ex-ported'), ybody.replace('exported', 'ex-ported'), name.replace('exported', 'ex-ported')
    x = 'X-MIB DEFINITIONS ::= BEGIN\n%s;\n%s\nEND\n' % (HEAD, xbody)
    y = 'Y-MIB DEFINITIONS ::= BEGIN\n%s\n  %s FROM X-MIB;\n%s\nEND\n' % (HEAD, name, ybody)
    try:
        codes = realpipe.generate([x, y], genTexts=False)
        ns, mb = realpipe.execute_set([('X-MIB', codes['X-MIB']), ('Y-MIB', codes['Y-MIB'])])
    except Exception:
        return False
    return name.replace('-', '_') in mb.mibSymbols.get('X-MIB', {}) and uses in mb.mibSymbols.get('Y-MIB', {})


def template_witnesses():
    out = []
    for kind in KINDS:
        out.append((kind, False, load_witness(kind)))
    out.append(('augmented row', True, load_witness(None, True)))
    return out


def solver_obligations(prop, tier, ctx):
    import json
    import re
    import z3
    from engine import smt
    from pysmi.lexer.smi import SmiV2Lexer
    recs = []
    # -- template layer: executed load witnesses (concrete, NOT solver-based: the template cannot be executed symbolically) --
    res = template_witnesses()
    bad = [r for r in res if not r[2]]
    rec = dict(cond='C04.template-load-witnesses', fn='templates/pysnmp/mib-definitions.j2 executed by pysnmp', paths=0, queries=0, verdict='EXECUTED',
               bounds='%d two-module sets (one symbol of each kind imported alone by a second module and used there; an imported row being '
                      'augmented) generated with the real template and loaded into one MibBuilder; concrete executions, a side condition '
                      'of the partial claim' % len(res))
    if not bad:
        rec.update(status='held', confirmed_paths=len(res))
    else:
        kind, table, _ = bad[0]
        rel = 'replays/C04-load-witness.py'
        os.makedirs(os.path.join(ctx['verif'], 'replays'), exist_ok=True)
        with open(os.path.join(ctx['verif'], rel), 'w') as fh:
            fh.write('import os, sys\nsys.path.insert(0, os.environ.get("VERIF_REPO", "/repo"))\n'
                     'sys.path.insert(0, os.path.dirname(os.path.dirname(os.path.abspath(__file__))))\n'
                     'from harness.c04_pysnmp import load_witness\nsys.exit(0 if load_witness(%r, %r) else 1)\n' % (kind, table))
        rec.update(status='violation', counterexample=dict(kind=kind, failing=[b[0] for b in bad]), replay=rel,
                   message='a generated module set does not load: a symbol of kind %r imported alone by a second generated module' % (kind,))
    recs.append(rec)
    S = z3.StringSort()
    any_ = z3.AllChar(z3.ReSort(S))
    try:
        lc = smt.re_to_z3(smt.rule_pattern(SmiV2Lexer, 't_LOWERCASE_IDENTIFIER'), re.DOTALL)
        uc = smt.re_to_z3(smt.rule_pattern(SmiV2Lexer, 't_UPPERCASE_IDENTIFIER'), re.DOTALL)
    except smt.Untranslatable as e:
        return [dict(cond='C04.identifier-paste-sites', status='inconclusive', verdict='UNTRANSLATABLE', paths=0, reason=str(e))]
    s = z3.String('s')
    ident = z3.Or(z3.InRe(s, lc), z3.InRe(s, uc))
    no_trailing_hyphen = z3.Not(z3.SuffixOf(z3.StringVal('-'), s))            # rejected by the t_* actions
    reserved = [w for w in SmiV2Lexer.reserved] + list(SmiV2Lexer.forbidden_words)
    not_reserved = z3.And(*[s != z3.StringVal(w) for w in reserved])
    h = z3.String('h')
    mapped = h == z3.Replace(s, z3.StringVal('-'), z3.StringVal('_'))          # (first hyphen only; enough for the witnesses below)
    start = z3.Union(z3.Range('a', 'z'), z3.Range('A', 'Z'), z3.Re('_'))
    cont = z3.Union(start, z3.Range('0', '9'), z3.Re('-'))
    pyid_with_hyphen = z3.Concat(start, z3.Star(cont))                          # identifiers once every '-' has become '_'
    known = set()
    try:
        for f in json.load(open(os.path.join(ctx['verif'], 'known_findings.json')))['findings']:
            if f.get('status') == 'open' and 'C04' in f.get('properties', []):
                known.add(f['id'])
    except Exception:
        pass
    queries = [
        ('digit-initial', 'KF-identifier-digit-initial', [ident, no_trailing_hyphen, z3.InRe(s, z3.Concat(z3.Range('0', '9'), z3.Star(any_))), z3.Length(s) <= 3],
         'an identifier the lexer accepts starts with a digit (%r): pasted as a Python name it is a syntax error'),
        ('bad-character', 'KF-identifier-A-z-range', [ident, no_trailing_hyphen, z3.Not(z3.InRe(s, z3.Concat(z3.Option(z3.Star(z3.Range('0', '9'))), z3.Star(cont)))), z3.Length(s) <= 3],
         'the identifier rules accept characters outside [A-Za-z0-9-] (%r, from the A-z range): not a Python name'),
        ('keyword', 'KF-keyword-identifier', [ident, no_trailing_hyphen, not_reserved, z3.Or(*[s == z3.StringVal(k) for k in keyword.kwlist if k.islower()])],
         'the identifier %r is a Python keyword'),
    ]
    for tag, kid, asserts, text in queries:
        verdict, model, dt, _ = smt.check(asserts)
        rec = dict(cond='C04.identifier-paste-sites.%s' % tag, fn='t_LOWERCASE_IDENTIFIER / t_UPPERCASE_IDENTIFIER vs Python identifiers',
                   paths=0, queries=1, solver_cpu_s=round(dt, 3), verdict=verdict,
                   bounds='z3 regex theory over the real identifier rules (witness length <= 3); unsat would hold for every length')
        if verdict == 'unsat':
            rec.update(status='held', confirmed_paths=1)
        elif verdict == 'sat':
            w = model[s].as_string()
            if replay_identifier(w):
                rec.update(status='inconclusive', reason='witness %r generates valid Python' % w)
            elif kid in known:
                rec.update(status='known', known_id=kid, message=text % w)
            else:
                rel = 'replays/C04-identifier-%s.py' % tag
                os.makedirs(os.path.join(ctx['verif'], 'replays'), exist_ok=True)
                with open(os.path.join(ctx['verif'], rel), 'w') as fh:
                    fh.write('import os, sys\nsys.path.insert(0, os.environ.get("VERIF_REPO", "/repo"))\n'
                             'sys.path.insert(0, os.path.dirname(os.path.dirname(os.path.abspath(__file__))))\n'
                             'from harness.c04_pysnmp import replay_identifier\nsys.exit(0 if replay_identifier(%r) else 1)\n' % w)
                rec.update(status='violation', counterexample=dict(identifier=w), replay=rel, message=text % w)
        else:
            rec.update(status='inconclusive', reason='z3: %s' % verdict)
        recs.append(rec)
    # the positive half: identifiers made of letters, digits and hyphens, not digit-initial, not keywords, map to Python names
    v, model, dt, _ = smt.check([z3.InRe(s, pyid_with_hyphen), no_trailing_hyphen,
                                 z3.Not(z3.InRe(s, z3.Concat(start, z3.Star(z3.Union(start, z3.Range('0', '9'), z3.Re('-'))))))])
    recs.append(dict(cond='C04.identifier-paste-sites.regular-names', fn='identifier language', paths=0, queries=1, solver_cpu_s=round(dt, 3),
                     verdict=v, status='held' if v == 'unsat' else 'inconclusive', confirmed_paths=1,
                     bounds='letter-initial names over [A-Za-z0-9-] are Python identifiers after the hyphen mapping (any length)',
                     reason='' if v == 'unsat' else 'z3: %s' % v))
    return recs
