"""C04 (engine EXEC): the generated pysnmp text is valid Python, loads against a MibBuilder, exports every symbol and
agrees with the JSON document - decided by executing the real template + compile() + pysnmp on every solver-explored shape."""
from harness.c03_json import *            # noqa: F401,F403  (names used by requires: lines and known-finding carve-outs of `symbols`)
from harness.c04_pysnmp import *          # noqa: F401,F403
from harness import c04_pysnmp as _b, c03_json as _c3, execpy

execpy.install(globals(), _b, ['agreement', 'closure', 'type_order'], ('kind', 'oid', 'access', 'basetype', 'constraints', 'default', 'refs'))
execpy.install(globals(), _c3, ['symbols'], ('kind', 'oid', 'access', 'basetype'))

X = 'the real template + compile() + pysnmp executed concretely on every solver-explored shape; '


def conditions(prop, tier):
    q = tier == 'quick'
    t = 280 if q else 1500
    out = []
    for k0 in range(11):
        out.append(dict(name='C04.exec.kinds.k%d' % k0, fn='x_agreement', fixed=dict(k0=k0), timeout=t,
                        bounds=X + 'two declarations: kind %d x every kind x 5 syntax/access variants each: the module loads, exports both '
                               'symbols, and kind / OID / access / base type / constraints / default agree with the JSON document' % k0))
    out.append(dict(name='C04.exec.import-closure', fn='x_closure', fixed={}, timeout=t,
                    bounds=X + 'a symbol of each kind (plain / hyphenated) declared in X-MIB and imported alone by Y-MIB: both generated modules load into one MibBuilder'))
    out.append(dict(name='C04.exec.type-order', fn='x_type_order', fixed={}, timeout=t,
                    bounds=X + 'chains of three derived types in every declaration order load (class definition order)'))
    if not q:
        for k0 in range(13):
            out.append(dict(name='C04.exec.symbols.k%d' % k0, fn='x_symbols', fixed=dict(k0=k0, n=3, l0=0, l1=1, l2=2, u0=0, u1=1, u2=2, genTexts=True),
                            timeout=t, bounds=X + 'three declarations: kind %d followed by every ordered pair of the 13 kinds (plain, hyphenated and keyword-free names)' % k0))
    return out


def selftests(prop):
    return [('x_agreement', dict(k0=2, k1=10, v0=3, v1=0)), ('x_closure', dict(k=10, hy=False)), ('x_type_order', dict(perm=0, tc_mid=False))]
