"""Ground-truth model of SMI modules: small builders that produce token lists for the real parser.

Every builder takes plain values (possibly CrossHair-symbolic ints / one symbolic str) and returns a token
list (see harness/tok.py). The harness that calls the builder knows the values it passed: that is the ground
truth the oracles compare with.
"""
from harness.tok import seq, NUM, LC, UC, QS, number_token

# OID-bearing declaration kinds
OID_KINDS = ['valueDeclaration', 'objectIdentity', 'objectType', 'notificationType', 'moduleIdentity',
             'objectGroup', 'notificationGroup', 'moduleCompliance', 'agentCapabilities', 'trapType']
KIND_CLASS = {'valueDeclaration': 'objectidentity', 'objectIdentity': 'objectidentity', 'objectType': 'objecttype',
              'notificationType': 'notificationtype', 'moduleIdentity': 'moduleidentity', 'objectGroup': 'objectgroup',
              'notificationGroup': 'notificationgroup', 'moduleCompliance': 'modulecompliance',
              'agentCapabilities': 'agentcapabilities', 'trapType': 'notificationtype'}


def ident(name):
    return UC(name) if name[0].isupper() else LC(name)


def oid(*els):
    """els: str name | int/symbolic int arc | ('named', name, arc)"""
    out = []
    for e in els:
        if isinstance(e, str):
            out.append(ident(e))
        elif isinstance(e, tuple):
            out.extend([LC(e[1]), ('(', '('), NUM(e[2]), (')', ')')])
        else:
            out.append(NUM(e))
    return out


def text(s):
    """quoted string token from an unquoted concrete text"""
    return QS('"' + s + '"')


def module(name, imports, decls, dialect='smiV2'):
    """imports: list of (fromModule, [symbol names]); decls: list of token lists"""
    toks = seq(UC(name), 'DEFINITIONS ::= BEGIN', dialect=dialect)
    if imports:
        toks += seq('IMPORTS', dialect=dialect)
        for frm, syms in imports:
            first = True
            for s in syms:
                if not first:
                    toks.append((',', ','))
                toks += seq(s, dialect=dialect)
                first = False
            toks += seq('FROM', UC(frm), dialect=dialect)
        toks.append((';', ';'))
    for d in decls:
        toks += d
    toks += seq('END', dialect=dialect)
    return toks


def value_decl(name, o):
    return seq(ident(name), 'OBJECT IDENTIFIER ::= {', o, '}')


def object_identity(name, o, status='current', descr=None, ref=None):
    parts = [LC(name), 'OBJECT-IDENTITY STATUS', LC(status), 'DESCRIPTION', descr or text('d')]
    parts += _opt('REFERENCE', ref)
    parts += ['::= {', o, '}']
    return seq(*parts)


def _opt(kw, tok):
    return [kw, tok] if tok is not None else []


def _names(names):
    out = []
    for i, n in enumerate(names):
        if i:
            out.append((',', ','))
        out.append(ident(n))
    return out


def object_type(name, syntax, o, access='read-only', status='current', descr=None, units=None, ref=None,
                index=None, augments=None, defval=None, access_kw='MAX-ACCESS', dialect='smiV2'):
    """syntax: token list; index: list of (implied, name-or-token-list); defval: token list (inside braces)"""
    parts = [LC(name), 'OBJECT-TYPE SYNTAX', syntax]
    parts += _opt('UNITS', units)
    if access is not None:
        parts += [access_kw, LC(access)]
    parts += ['STATUS', LC(status)]
    if descr is not None:
        parts += ['DESCRIPTION', descr]
    parts += _opt('REFERENCE', ref)
    if augments is not None:
        parts += ['AUGMENTS {', ident(augments), '}']
    if index is not None:
        parts += ['INDEX {']
        for i, (implied, n) in enumerate(index):
            if i:
                parts.append((',', ','))
            if implied:
                parts.append('IMPLIED')
            parts.append(ident(n) if isinstance(n, str) else n)
        parts += ['}']
    if defval is not None:
        parts += ['DEFVAL {', defval, '}']
    parts += ['::= {', o, '}']
    return seq(*parts, dialect=dialect)


def notification_type(name, o, objects=None, status='current', descr=None, ref=None):
    parts = [LC(name), 'NOTIFICATION-TYPE']
    if objects is not None:
        parts += ['OBJECTS {', _names(objects), '}']
    parts += ['STATUS', LC(status), 'DESCRIPTION', descr or text('d')]
    parts += _opt('REFERENCE', ref)
    parts += ['::= {', o, '}']
    return seq(*parts)


def module_identity(name, o, last='"200001010000Z"', org=None, contact=None, descr=None, revisions=()):
    """revisions: list of (quoted time token value, quoted description token)"""
    parts = [LC(name), 'MODULE-IDENTITY LAST-UPDATED', QS(last), 'ORGANIZATION', org or text('o'),
             'CONTACT-INFO', contact or text('c'), 'DESCRIPTION', descr or text('d')]
    for rt, rd in revisions:
        parts += ['REVISION', QS(rt), 'DESCRIPTION', rd]
    parts += ['::= {', o, '}']
    return seq(*parts)


def object_group(name, o, objects, status='current', descr=None, ref=None):
    parts = [LC(name), 'OBJECT-GROUP OBJECTS {', _names(objects), '} STATUS', LC(status), 'DESCRIPTION',
             descr or text('d')]
    parts += _opt('REFERENCE', ref)
    parts += ['::= {', o, '}']
    return seq(*parts)


def notification_group(name, o, notifs, status='current', descr=None, ref=None):
    parts = [LC(name), 'NOTIFICATION-GROUP NOTIFICATIONS {', _names(notifs), '} STATUS', LC(status), 'DESCRIPTION',
             descr or text('d')]
    parts += _opt('REFERENCE', ref)
    parts += ['::= {', o, '}']
    return seq(*parts)


def module_compliance(name, o, modules=None, status='current', descr=None, ref=None):
    """modules: list of (moduleName or None, mandatory group names or None, [('G', name) | ('O', name)])"""
    parts = [LC(name), 'MODULE-COMPLIANCE STATUS', LC(status), 'DESCRIPTION', descr or text('d')]
    parts += _opt('REFERENCE', ref)
    for mn, mand, clauses in (modules if modules is not None else [(None, None, [])]):
        parts.append('MODULE')
        if mn:
            parts.append(UC(mn))
        if mand is not None:
            parts += ['MANDATORY-GROUPS {', _names(mand), '}']
        for k, n in clauses:
            if k == 'G':
                parts += ['GROUP', ident(n), 'DESCRIPTION', text('g')]
            else:
                parts += ['OBJECT', ident(n), 'DESCRIPTION', text('o')]
    parts += ['::= {', o, '}']
    return seq(*parts)


def agent_capabilities(name, o, release=None, status='current', descr=None, ref=None):
    parts = [LC(name), 'AGENT-CAPABILITIES PRODUCT-RELEASE', release or text('r'), 'STATUS', LC(status),
             'DESCRIPTION', descr or text('d')]
    parts += _opt('REFERENCE', ref)
    parts += ['::= {', o, '}']
    return seq(*parts)


def trap_type(name, enterprise, number, variables=None, descr=None, ref=None, dialect='smiV1'):
    """enterprise: token list (an OID value without braces, usually one name)"""
    parts = [ident(name), 'TRAP-TYPE ENTERPRISE', enterprise]
    if variables is not None:
        parts += ['VARIABLES {', _names(variables), '}']
    if descr is not None:
        parts += ['DESCRIPTION', descr]
    parts += _opt('REFERENCE', ref)
    parts += ['::=', NUM(number)]
    return seq(*parts, dialect=dialect)


def type_decl(name, syntax):
    return seq(UC(name), '::=', syntax)


def textual_convention(name, syntax, display=None, status='current', descr=None, ref=None):
    parts = [UC(name), '::= TEXTUAL-CONVENTION']
    parts += _opt('DISPLAY-HINT', display)
    parts += ['STATUS', LC(status), 'DESCRIPTION', descr or text('d')]
    parts += _opt('REFERENCE', ref)
    parts += ['SYNTAX', syntax]
    return seq(*parts)


def sequence_type(name, items):
    """items: list of (column name, syntax text)"""
    parts = [UC(name), '::= SEQUENCE {']
    for i, (n, s) in enumerate(items):
        if i:
            parts.append((',', ','))
        parts += [LC(n), s]
    parts.append('}')
    return seq(*parts)


def oid_decl(kind, name, o, dialect='smiV2'):
    """a declaration of the given OID-bearing kind with default clause contents"""
    if kind == 'valueDeclaration':
        return value_decl(name, o)
    if kind == 'objectIdentity':
        return object_identity(name, o)
    if kind == 'objectType':
        return object_type(name, seq('Integer32'), o, descr=text('d'))
    if kind == 'notificationType':
        return notification_type(name, o)
    if kind == 'moduleIdentity':
        return module_identity(name, o)
    if kind == 'objectGroup':
        return object_group(name, o, ['someObject'])
    if kind == 'notificationGroup':
        return notification_group(name, o, ['someNotif'])
    if kind == 'moduleCompliance':
        return module_compliance(name, o)
    if kind == 'agentCapabilities':
        return agent_capabilities(name, o)
    raise ValueError(kind)


def ranges(alts):
    """alts: list of (lo,) or (lo, hi) with int values -> token list '( a..b | c )' without the outer parens"""
    out = []
    for i, alt in enumerate(alts):
        if i:
            out.append(('|', '|'))
        out.append(number_token(alt[0]))
        if len(alt) == 2:
            out.append(('DOT_DOT', '..'))
            out.append(number_token(alt[1]))
    return out


def enum_items(items):
    out = []
    for i, (n, v) in enumerate(items):
        if i:
            out.append((',', ','))
        out += [LC(n), ('(', '('), number_token(v), (')', ')')]
    return out
