"""C18: the OID -> module index (JsonCodeGen.genIndex, MibCompiler.buildIndex).

Real code executed symbolically: pysmi.codegen.jsondoc.JsonCodeGen.genIndex (incl. the nested order()),
pysmi.compiler.MibCompiler.buildIndex with a recording writer.
Stub: `json` in pysmi.codegen.jsondoc replaced by an identity codec (formatting is not the subject).

Symbolic: two sibling arcs a, b as decimal digit strings (len<=2, no leading zero) - so that siblings sharing
decimal digits (9/99, 1/10 ...) are covered -, nesting/overlap flags, which summary OIDs (identity /
enterprise / compliance) are present, and the build history (all at once | A then B on top | B then A on top),
followed by a re-index of the same results.
"""
from pysmi.codegen import jsondoc
from pysmi.codegen.jsondoc import JsonCodeGen
from pysmi.compiler import MibCompiler, statusCompiled, statusFailed, statusUntouched
from pysmi import error

DIG = '0123456789'


class JsonId(object):
    @staticmethod
    def dumps(obj, **kw):
        return obj

    @staticmethod
    def loads(s):
        return s


def isarc(s):
    if not (1 <= len(s) <= 2):
        return False
    for c in s:
        if c not in DIG:
            return False
    return len(s) == 1 or s[0] != '0'


def covered(oid, mod, section):
    parts = oid.split('.')
    for k in range(1, len(parts) + 1):
        pref = '.'.join(parts[:k])
        if pref in section and mod in section[pref]:
            return True
    return False


def plain(x):
    """OrderedDict/list tree -> plain dict/list for comparisons"""
    if isinstance(x, dict):
        return dict((k, plain(v)) for k, v in x.items())
    if isinstance(x, list):
        return [plain(v) for v in x]
    return x


def _mods(a, b, deepA, deepB, overlap, idA, entB, compA, compB):
    stem = '1.3'
    oa = stem + '.' + a
    ob = stem + '.' + b
    A = [oa]
    B = [ob + '.1' if deepB else ob]
    if deepA:
        A.append(oa + '.7.1')
    if overlap:
        A.append(ob + '.1.2')        # A also defines a node inside B's subtree
        B.append(oa)                 # and B defines A's root too (shared subtree)
    if deepA and deepB:
        # a nested node shared by both modules, each with its own child below it
        A.extend([oa + '.5', oa + '.5.2'])
        B.extend([oa + '.5', oa + '.5.3'])
    sa = statusCompiled.setOptions(oids=tuple(A), identity=(oa if idA else None), enterprise=None,
                                   compliance=tuple([oa + '.7.1'] if (compA and deepA) else []))
    sb = statusCompiled.setOptions(oids=tuple(B), identity=None, enterprise=(B[0] if entB else None),
                                   compliance=tuple([B[0]] if compB else []))
    return {'A': sa, 'B': sb}, {'A': A, 'B': B}


def _check_index(idx, results, oids):
    sec = idx['oids']
    for m in oids:
        for o in oids[m]:
            if not covered(o, m, sec):
                return False
    for k in sec:
        for m in sec[k]:
            if m not in oids or k not in oids[m]:
                return False                       # a module listed under an OID it does not define
    for m, st in results.items():
        if st.identity and m not in idx['identity'].get(st.identity, []):
            return False
        if st.enterprise and m not in idx['enterprise'].get(st.enterprise, []):
            return False
        for c in st.compliance:
            if m not in idx['compliance'].get(c, []):
                return False
    return True


# sibling arcs that share decimal digits with each other (string-prefix vs component-wise prefix)
POOL = ['9', '99', '1', '10', '8', '85', '19']


def pick(i):
    for j in range(len(POOL)):
        if i == j:
            return POOL[j]
    return POOL[0]


def index(ai: int, bi: int, deepA: bool, deepB: bool, overlap: bool, idA: bool, entB: bool, compA: bool,
          compB: bool, history: int) -> bool:
    """
    requires: 0 <= ai < len(POOL) and 0 <= bi < len(POOL) and 0 <= history <= 2
    """
    jsondoc.json = JsonId
    a = pick(ai)
    b = pick(bi)
    results, oids = _mods(a, b, deepA, deepB, overlap, idA, entB, compA, compB)
    g = JsonCodeGen()
    last = results
    if history == 0:
        idx = g.genIndex(results)
    else:
        last = None
        first = 'A' if history == 1 else 'B'
        second = 'B' if history == 1 else 'A'
        idx1 = g.genIndex({first: results[first]})
        if not _check_index(plain(idx1), {first: results[first]}, {first: oids[first]}):
            return False
        last = {second: results[second]}
        idx = g.genIndex(last, old_index_data=idx1)
        p1, p = plain(idx1), plain(idx)
        # nothing the earlier index provided is lost
        for sect in ('identity', 'enterprise', 'compliance'):
            for k in p1[sect]:
                for m in p1[sect][k]:
                    if m not in p[sect].get(k, []):
                        return False
    p = plain(idx)
    if not _check_index(p, results, oids):
        return False
    # re-indexing the same results on top of the index changes nothing
    # (idempotence of one build step: the SAME results indexed again on top of the index they produced)
    again = plain(g.genIndex(last, old_index_data=idx))
    if again != p:
        return False
    # a later build that starts WITHOUT an existing index knows nothing of earlier builds (same or another generator object)
    for gen in (g, JsonCodeGen()):
        alone = plain(gen.genIndex({'B': results['B']}))
        if not _check_index(alone, {'B': results['B']}, {'B': oids['B']}):
            return False
    return True


class RecWriter(object):
    def __init__(self, old, fail):
        self.old = old
        self.fail = fail
        self.puts = []

    def getData(self, name, **kw):
        return self.old

    def putData(self, name, data, comments=(), dryRun=False):
        self.puts.append((name, data, dryRun))
        if self.fail:
            raise error.PySmiWriterError('wr')


def build_index(has_old: bool, fail: bool, ignoreErrors: bool, dryRun: bool, st: int) -> bool:
    """
    requires: 0 <= st <= 2
    """
    jsondoc.json = JsonId
    status = (statusCompiled.setOptions(oids=('1.3.9',), identity='1.3.9', enterprise=None, compliance=()),
              statusUntouched, statusFailed.setOptions(error=error.PySmiError('x')))[st]
    old = {'meta': {}, 'identity': {'1.3.99': ['OLD']}, 'enterprise': {}, 'compliance': {}, 'oids': {'1.3.99': ['OLD']}}
    w = RecWriter(old if has_old else '', fail)
    comp = MibCompiler(None, JsonCodeGen(), w)
    comp._get_system_info = lambda: (('?',) * 6, ('?',) * 7)
    try:
        comp.buildIndex({'M': status}, dryRun=dryRun, ignoreErrors=ignoreErrors)
        out = 'ok'
    except error.PySmiError:
        out = 'package-error'
    except Exception:
        return False
    if len(w.puts) != 1 or w.puts[0][0] != 'index' or w.puts[0][2] != dryRun:
        return False
    idx = plain(w.puts[0][1])
    if has_old and (idx['identity'].get('1.3.99') != ['OLD'] or not covered('1.3.99', 'OLD', idx['oids'])):
        return False
    if st == 0 and not (idx['identity'].get('1.3.9') == ['M'] and covered('1.3.9', 'M', idx['oids'])):
        return False
    if st != 0 and covered('1.3.9', 'M', idx['oids']):
        return False
    if fail and not ignoreErrors:
        return out == 'package-error'
    return out == 'ok'


def summary(has_id: bool, ncomp: int, nobj: int, ent: int, id_first: bool) -> bool:
    """
    requires: 0 <= ncomp <= 2 and 0 <= nobj <= 2 and 0 <= ent <= 2
    """
    # the per-module summary the index is built from, produced by the REAL parser / symbol table / code generator, and the
    # index built from it: a module is listed under its MODULE-IDENTITY OID, under the enterprise arc any of its OIDs lies
    # below (also when the only such symbols are the identity or a compliance statement), and under each compliance OID
    from harness import tok, smimodel as m
    tok.install_jinja_capture()
    # ent: 0 = nothing below enterprises, 1 = everything below enterprises.4343, 2 = only the identity / compliances are
    root = (3, 6, 1, 4, 1, 4343) if ent else (3, 7)
    oroot = (3, 6, 1, 4, 1, 4343) if ent == 1 else (3, 8)
    decls, want_oids = [], []
    ident = None
    if has_id:
        ident = (1,) + root + (1,)
        decls.append(m.module_identity('theId', m.oid('iso', *(root + (1,)))))
        want_oids.append(ident)
    comps = []
    for i in range(ncomp):
        comps.append((1,) + root + (20 + i,))
        decls.append(m.module_compliance('mc%d' % i, m.oid('iso', *(root + (20 + i,)))))
        want_oids.append(comps[-1])
    objs = []
    for i in range(nobj):
        objs.append((1,) + oroot + (40 + i,))
        decls.append(m.value_decl('node%d' % i, m.oid('iso', *(oroot + (40 + i,)))))
        want_oids.append(objs[-1])
    if not decls:
        return True
    if not id_first:
        decls.reverse()
    try:
        trees = tok.parse_tokens(m.module('M', [], decls))
        res = tok.compile_trees(trees, backend='json')
    except error.PySmiError:
        return False
    mi = res.info['M']

    def dotted(o):
        return '.'.join(str(x) for x in o)
    if set(mi.oids) != set(dotted(o) for o in want_oids):
        return False
    if (mi.identity or None) != (dotted(ident) if ident else None):
        return False
    if sorted(mi.compliance or []) != sorted(dotted(c) for c in comps):
        return False
    below = [o for o in want_oids if o[:6] == (1, 3, 6, 1, 4, 1)]
    if (mi.enterprise or None) != (dotted(below[0][:7]) if below else None):
        return False
    # and the index lists the module under each of them
    jsondoc.json = JsonId
    st = statusCompiled.setOptions(oid=mi.oid, oids=mi.oids, identity=mi.identity, enterprise=mi.enterprise, compliance=mi.compliance)
    idx = JsonCodeGen().genIndex({'M': st})
    if ident and 'M' not in idx['identity'].get(dotted(ident), []):
        return False
    if below and 'M' not in idx['enterprise'].get(dotted(below[0][:7]), []):
        return False
    for c in comps:
        if 'M' not in idx['compliance'].get(dotted(c), []):
            return False
    return True


def conditions(prop, tier):
    out = []
    t = 280 if tier == 'quick' else 1500
    out.append(dict(name='C18.summary', fn='summary', fixed={}, timeout=t,
                    bounds='module with / without MODULE-IDENTITY, 0-2 compliance statements, 0-2 other nodes; nothing / everything / only the identity and '
                           'compliances below enterprises; both declaration orders: MibInfo.identity / enterprise / compliance / oids from the real pipeline and '
                           'the index entries built from them'))
    npool = 4 if tier == 'quick' else len(POOL)
    B = ('sibling arcs a,b picked by symbolic index from %r[:npool] (digit-sharing siblings; the general statement about the '
         'prefix test is the SMT obligation C18.prefix-kernel); nesting/overlap/summary-OID flags symbolic; history fixed per '
         'shard (0 one build, 1 A then B, 2 B then A) + re-index' % (POOL,))
    for h in (0, 1, 2):
        for ov in (False, True):
            for da in (False, True):
                out.append(dict(name='C18.genIndex.h%d-ov%d-da%d' % (h, ov, da), fn='index',
                                fixed=dict(history=h, overlap=ov, deepA=da), timeout=t, bounds=B,
                                extra_pre=['ai < %d and bi < %d' % (npool, npool)]))
    out.append(dict(name='C18.buildIndex', fn='build_index', fixed={}, timeout=t,
                    bounds='old index present or not, writer failure, ignoreErrors, dryRun, module status in {compiled, untouched, failed}'))
    return out


def selftests(prop):
    return [('index', dict(ai=1, bi=0, deepA=True, deepB=True, overlap=True, idA=True, entB=True, compA=True, compB=True, history=1)),
            ('build_index', dict(has_old=True, fail=False, ignoreErrors=False, dryRun=False, st=0))]


# ---- direct SMT obligation: the prefix test used for compaction, for OIDs of ANY length -------------------

def _find_prefix_test(repo):
    """locate in genIndex() the condition of the `if` that decides whether an OID is covered by a prefix:
    the left operand of `<test> and set(modules).issuperset(...)` inside the loop over unique_prefixes"""
    import ast
    import os
    from engine import smt
    src = open(os.path.join(repo, 'pysmi/codegen/jsondoc.py')).read()
    fn = smt.find_function(ast.parse(src), 'genIndex')
    if fn is None:
        return None, 'genIndex not found'
    for node in ast.walk(fn):
        if isinstance(node, ast.For) and isinstance(node.iter, ast.Call) and isinstance(node.iter.func, ast.Attribute) \
                and node.iter.func.attr == 'items' and isinstance(node.iter.func.value, ast.Name) \
                and node.iter.func.value.id == 'unique_prefixes':
            for st in node.body:
                if isinstance(st, ast.If) and isinstance(st.test, ast.BoolOp) and isinstance(st.test.op, ast.And):
                    return st.test.values[0], ast.get_source_segment(src, st.test.values[0])
    return None, 'loop over unique_prefixes.items() with an `if <test> and ...` not found'


def solver_obligations(prop, tier, ctx):
    import z3
    from engine import smt
    rec = dict(cond='C18.prefix-kernel', fn='pysmi.codegen.jsondoc.JsonCodeGen.genIndex (prefix test)', paths=0, queries=1,
               bounds='unbounded: all pairs of dotted-decimal OIDs of any length (z3 sequence theory + regex membership)')
    node, text = _find_prefix_test(ctx['repo'])
    if node is None:
        rec.update(status='inconclusive', verdict='UNTRANSLATABLE', reason=text)
        return [rec]
    o, p = z3.String('oid'), z3.String('oid_prefix')
    try:
        test = smt.str_expr(node, {'oid': o, 'oid_prefix': p})
    except smt.Untranslatable as e:
        rec.update(status='inconclusive', verdict='UNTRANSLATABLE', reason='cannot translate %r: %s' % (text, e))
        return [rec]
    L = smt.oid_language()
    componentwise = z3.Or(o == p, z3.PrefixOf(z3.Concat(p, z3.StringVal('.')), o))
    verdict, model, dt, smt2 = smt.check([z3.InRe(o, L), z3.InRe(p, L), test != componentwise])
    rec.update(verdict=verdict, solver_cpu_s=round(dt, 3), expression=text)
    if verdict == 'unsat':
        rec.update(status='held', confirmed_paths=1)
    elif verdict == 'sat':
        ov, pv = model[o].as_string(), model[p].as_string()
        # replay on the real function: module M defines both OIDs; each must be covered component-wise
        import subprocess, os, json
        args = dict(o=ov, p=pv)
        rel = 'replays/C18-prefix-kernel.py'
        os.makedirs(os.path.join(ctx['verif'], 'replays'), exist_ok=True)
        with open(os.path.join(ctx['verif'], rel), 'w') as f:
            f.write('import os, sys\nsys.path.insert(0, os.environ.get("VERIF_REPO", "/repo"))\n'
                    'sys.path.insert(0, os.path.dirname(os.path.dirname(os.path.abspath(__file__))))\n'
                    'from harness.c18_index import replay_pair\nsys.exit(0 if replay_pair(%r, %r) else 1)\n' % (ov, pv))
        pr = subprocess.run([ctx['py'], os.path.join(ctx['verif'], rel)], env=dict(os.environ, VERIF_REPO=ctx['repo']))
        if pr.returncode == 1:
            rec.update(status='violation', counterexample=args, replay=rel,
                       message='prefix test %r treats %s as covered by %s' % (text, ov, pv))
        else:
            rec.update(status='inconclusive', reason='z3 model %r does not change the real index (test differs from '
                       'component-wise prefix but no observable loss)' % (args,))
    else:
        rec.update(status='inconclusive', reason='z3 answered unknown')
    return [rec]


def replay_pair(o, p):
    import json
    g = JsonCodeGen()
    idx = json.loads(g.genIndex({'M': statusCompiled.setOptions(oids=(p,), identity=None, enterprise=None, compliance=()),
                                 'N': statusCompiled.setOptions(oids=(o, p), identity=None, enterprise=None, compliance=())}))
    return covered(o, 'N', idx['oids']) and covered(p, 'M', idx['oids']) and covered(p, 'N', idx['oids'])
