"""C05, pysnmp side (engine EXEC): the C05 sentences, with values from pools, through the real template, CPython and pysnmp;
the loaded classes/objects must agree with the JSON document on base type, ranges, sizes, enumerations, BITS and DEFVAL."""
from harness.c05_types import *          # noqa: F401,F403  (names used by the requires: lines)
from harness import c05_types as _b, execpy

execpy.install(globals(), _b, ['int_ranges', 'octet_sizes', 'literal_ranges', 'enums', 'bits', 'defval_number', 'defval_other'],
               ('kind', 'oid', 'access', 'basetype', 'constraints', 'default'))

def lit_le(i0, i1):
    """range bounds in the order a well-formed MIB writes them"""
    return pick(LITS, i0)[1] <= pick(LITS, i1)[1]


X = 'the real template + compile() + pysnmp executed concretely on every solver-explored shape; '


def conditions(prop, tier):
    q = tier == 'quick'
    t = 280 if q else 1500
    out = []
    if q:
        vals = ['lo0 in (-5, 0)', 'hi0 == 7', 'lo1 == 10', 'hi1 in (12, 4294967295)']
    else:
        vals = ['lo0 in (-5, 0)', 'hi0 in (0, 7)', 'lo1 in (10, 12)', 'hi1 in (12, 4294967295)']
    for base in ((0, 2, 4, 5) if q else range(6)):
        for in_type in (False, True):
            out.append(dict(name='C05.exec.int-ranges.b%d.t%d' % (base, in_type), fn='x_int_ranges',
                            fixed=dict(base=base, in_type=in_type, lo2=20, hi2=20, s2=True), extra_pre=vals + ['n <= 2'], timeout=t,
                            bounds=X + 'base type %s, refinement %s, 1-2 alternatives (single value or pair), bounds from pools'
                            % (BASES[base], 'on a type assignment' if in_type else 'inline')))
    for base in ((0, 2) if q else range(3)):
        out.append(dict(name='C05.exec.octet-sizes.b%d' % base, fn='x_octet_sizes', fixed=dict(base=base, lo2=20, hi2=20, s2=True),
                        extra_pre=(['lo0 in (0, 2)', 'hi0 == 8', 'lo1 == 10', 'hi1 in (12, 255)', 'n <= 2'] if q else
                                   ['lo0 in (0, 2)', 'hi0 in (2, 8)', 'lo1 in (10, 12)', 'hi1 in (12, 255)', 'n <= 2']), timeout=t,
                        bounds=X + 'SIZE refinements, 1-2 alternatives, bounds from pools'))
    out.append(dict(name='C05.exec.literal-ranges', fn='x_literal_ranges', fixed={}, extra_pre=['lit_le(i0, i1)'], timeout=t,
                    bounds=X + 'range / SIZE bounds written as hex and binary literals (literal pool)'))
    for base in (0, 1):
        for n in (1, 2, 3):
            out.append(dict(name='C05.exec.enums.b%d.n%d' % (base, n), fn='x_enums', fixed=dict(base=base, n=n),
                            extra_pre=(['v0 in (1, -2)', 'v1 == 2', 'v2 in (3, 2147483647)', 'p < 3'] if q else
                                       ['v0 in (1, -2)', 'v1 in (2, 0)', 'v2 in (3, 2147483647)', 'p < 6 or n == 3']), timeout=t,
                            bounds=X + 'enumerations of %d labels (pool incl. hyphenated), label orders, values from pools' % n))
    for n in (1, 2, 3):
        out.append(dict(name='C05.exec.bits.n%d' % n, fn='x_bits', fixed=dict(n=n),
                        extra_pre=(['v0 in (0, 3)', 'v1 == 8', 'v2 in (2, 31)', 'p < 3'] if q else
                                   ['v0 in (0, 3)', 'v1 in (1, 8)', 'v2 in (2, 31)', 'p < 6 or n == 3']),
                        timeout=t, bounds=X + 'BITS of %d names, positions from pools' % n))
    for kind in (0, 5):
        for depth in range(4):
            if q and (kind, depth) not in ((0, 0), (0, 1), (0, 3), (5, 1)):
                continue
            out.append(dict(name='C05.exec.defval-number.k%d.d%d' % (kind, depth), fn='x_defval_number', fixed=dict(kind=kind, depth=depth),
                            extra_pre=['v in (0, -7)' if q else 'v in (0, 5, -7, 4294967295)', 'perm < 2' if q else 'perm < 24'], timeout=t,
                            bounds=X + 'numeric DEFVAL through a type chain of depth %d, declaration orders, one or two modules' % depth))
    for kind, nots in ((0, (1, 2)), (1, (0, 1, 2)), (2, (3,)), (3, (4,)), (4, (5,))):
        for notation in nots:
            out.append(dict(name='C05.exec.defval-other.k%d.n%d' % (kind, notation), fn='x_defval_other', fixed=dict(kind=kind, notation=notation),
                            extra_pre=['perm < 2 and depth <= 1' if q else 'perm < 24'], timeout=t,
                            bounds=X + 'DEFVAL notation %d on base kind %d through type chains of depth %s' % (notation, kind, '0-1' if q else '0-3')))
    return out


def selftests(prop):
    return [('x_int_ranges', dict(base=0, in_type=False, n=2, s0=False, s1=True, s2=True, lo0=-5, hi0=7, lo1=10, hi1=12, lo2=20, hi2=20)),
            ('x_defval_number', dict(depth=2, kind=0, perm=0, split=True, v=5)),
            ('x_enums', dict(base=1, n=3, p=5, v0=1, v1=0, v2=3))]
