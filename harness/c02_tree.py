"""C02 (tree half): the syntax tree is a faithful image of the token sentence (TOK + XH).

Real code: ply.yacc.LRParser.parse over the LALR tables PLY derives from pysmi.parser.smi.SmiV2Parser, with ALL p_*
actions. Sentences come from harness/families.py; the oracle (families.check_leaves) is independent of the tuple layout:
every information-bearing token value is a leaf of the returned tree with the right multiplicity, list members keep
their order, module and declaration counts match.
"""
import itertools

from harness import tok, families as f
from pysmi import error

U32 = 4294967295
U64 = 18446744073709551615
PERMS3 = list(itertools.permutations(range(3)))


def pick(table, k):
    for i in range(len(table)):
        if k == i:
            return table[i]
    return table[0]


def in64(*vs):
    for v in vs:
        if not (-U64 <= v <= U64):
            return False
    return True


def arc(*vs):
    for v in vs:
        if not (0 <= v <= U32):
            return False
    return True


def _judge(mods, ndecl, dialect):
    """mods: list of module Sent objects making up one file; ndecl: expected declarations per module"""
    toks = []
    for mo in mods:
        toks.extend(mo.toks)
    try:
        trees = tok.parse_tokens(toks, dialect)
    except error.PySmiError:
        return False                 # every family sentence is well-formed
    except Exception:
        return False
    if len(trees) != len(mods):
        return False
    for tree, mo, nd in zip(trees, mods, ndecl):
        decls = [d for d in (tree[3] or []) if d]
        if len(decls) != nd:
            return False
        if not f.check_leaves(tree, mo.expect):
            return False
        if not f.check_pairs(tree, mo.pairs):
            return False
    return True


def _wrap(sent, ndecl=1, nimp=0, nsym=1, modoid=False, exports=False, samefrom=False):
    return _judge([f.module('ZQMOD', nimp, nsym, modoid, exports, [sent], sent.dialect, samefrom=samefrom)], [ndecl], sent.dialect)


def value_decl(shape: int, a: int, b: int, nimp: int, nsym: int, modoid: bool, exports: bool, samefrom: bool) -> bool:
    """
    requires: 0 <= shape <= 3 and arc(a, b) and 0 <= nimp <= 3 and 1 <= nsym <= 3
    """
    return _wrap(f.f_value(shape, a, b), 1, nimp, nsym, modoid, exports, samefrom)


def object_identity(ref: bool, shape: int, a: int, b: int) -> bool:
    """
    requires: 0 <= shape <= 3 and arc(a, b)
    """
    return _wrap(f.f_object_identity(ref, shape, a, b))


def object_type(variant: int, units: bool, access: bool, descr: bool, ref: bool, idx: int, nidx: int, im0: bool,
                im1: bool, defval: int, dv: int, a: int, b: int) -> bool:
    """
    requires: 0 <= variant <= 8 and 0 <= idx <= 2 and 1 <= nidx <= 3 and 0 <= defval <= 6
    requires: in64(dv, a, b) and (variant != 4 or 0 <= a <= U32) and (variant != 3 or -U32 <= a <= U32 and -U32 <= b <= U32)
    """
    return _wrap(f.f_object_type(variant, units, access, descr, ref, idx, nidx, im0, im1, defval, dv, a, b))


def trap_type(nvars: int, descr: bool, ref: bool, number: int, upper: bool) -> bool:
    """
    requires: -1 <= nvars <= 3 and nvars != 0 and arc(number)
    """
    return _wrap(f.f_trap_type(nvars, descr, ref, number, upper))


def notification_type(nobj: int, ref: bool) -> bool:
    """
    requires: -1 <= nobj <= 3 and nobj != 0
    """
    return _wrap(f.f_notification_type(nobj, ref))


def module_identity(nrev: int, subj: bool) -> bool:
    """
    requires: 0 <= nrev <= 3
    """
    return _wrap(f.f_module_identity(nrev, subj))


def group(notif: bool, n: int, ref: bool) -> bool:
    """
    requires: 1 <= n <= 3
    """
    return _wrap(f.f_group(notif, n, ref))


def module_compliance(named: bool, nmand: int, c0: int, c1: int, ncl: int, refine: bool) -> bool:
    """
    requires: 0 <= nmand <= 2 and 0 <= c0 <= 1 and 0 <= c1 <= 1 and 0 <= ncl <= 2
    """
    return _wrap(f.f_module_compliance(named, nmand, c0, c1, ncl, refine))


def agent_capabilities(ref: bool, supports: bool, variation: bool) -> bool:
    """
    requires: True
    """
    return _wrap(f.f_agent_capabilities(ref, supports, variation))


def type_decl(form: int, variant: int, display: bool, ref: bool, a: int, b: int) -> bool:
    """
    requires: 0 <= form <= 3 and 0 <= variant <= 8
    requires: in64(a, b) and (variant != 4 or 0 <= a <= U32) and (variant != 3 or -U32 <= a <= U32 and -U32 <= b <= U32)
    """
    return _wrap(f.f_type(form, variant, display, ref, a, b))


def _decl_of(k, a):
    if k == 0:
        return f.f_value(0, a, 0)
    if k == 1:
        return f.f_object_type(0, False, True, True, False, 0, 1, False, False, 1, a, 0, 0)
    if k == 2:
        return f.f_type(1, 1, True, False, a, a)
    if k == 3:
        return f.f_notification_type(2, False)
    return f.f_macro()


def file_layout(nmods: int, n0: int, n1: int, p: int, k0: int, k1: int, k2: int, a: int) -> bool:
    """
    requires: 1 <= nmods <= 2 and 0 <= n0 <= 3 and 0 <= n1 <= 2 and 0 <= p < 6
    requires: 0 <= k0 <= 4 and 0 <= k1 <= 4 and 0 <= k2 <= 4 and arc(a)
    """
    # several modules per file, 0..3 declarations of symbolic kinds in symbolic order
    kinds = [k0, k1, k2]
    order = pick(PERMS3, p)
    d0 = [_decl_of(kinds[i], a) for i in order][:n0]
    m0 = f.module('ZQMOD', 1, 2, False, False, d0)
    mods, nd = [m0], [len([1 for i in order[:n0] if kinds[i] != 4])]
    if nmods == 2:
        d1 = [_decl_of(kinds[i], a) for i in range(n1)]
        mods.append(f.module('ZQSECOND', 0, 1, True, True, d1))
        nd.append(len([1 for i in range(n1) if kinds[i] != 4]))
    return _judge(mods, nd, 'smiV2')


def lcident(s):
    if len(s) < 1 or not ('a' <= s[0] <= 'z'):
        return False
    for c in s:
        if not (c == '-' or 'a' <= c <= 'z' or 'A' <= c <= 'Z' or '0' <= c <= '9'):
            return False
    return s[len(s) - 1] != '-'


def ucident(s):
    if len(s) < 1 or not ('A' <= s[0] <= 'Z'):
        return False
    for c in s:
        if not (c == '-' or 'a' <= c <= 'z' or 'A' <= c <= 'Z' or '0' <= c <= '9'):
            return False
    return s[len(s) - 1] != '-'


def quoted(v):
    if len(v) < 2 or v[0] != '"' or v[len(v) - 1] != '"':
        return False
    for c in v[1:len(v) - 1]:
        if c == '"':
            return False
    return True


def _rich(fam):
    if fam == 0:
        return f.f_object_type(3, True, True, True, True, 1, 2, True, False, 2, 0, 1, 2)
    if fam == 1:
        return f.f_module_identity(2, False)
    if fam == 2:
        return f.f_module_compliance(True, 2, 0, 0, 2, False)
    if fam == 3:
        return f.f_type(1, 5, True, True, 0, 0)
    if fam == 4:
        return f.f_notification_type(2, True)
    if fam == 5:
        return f.f_agent_capabilities(True, False, False)
    return f.f_trap_type(2, True, True, 7, False)


def _site(fam, site, want_quoted):
    sent = _rich(fam)
    mod = f.module('ZQMOD', 1, 2, False, False, [sent], sent.dialect)
    # (module names after FROM become dict keys in p_importPart: hashing realises a symbolic string, so that site is
    # exercised with constants only)
    sites = [i for i in f.string_sites(mod) if (mod.toks[mod.where[i]][0] == 'QUOTED_STRING') == want_quoted
             and not str(mod.expect[i][0]).startswith('ZQFROM')]
    if site >= len(sites):
        return None, None, None
    return sent, mod, sites[site]


def one_ident(fam: int, site: int, v: str) -> bool:
    """
    requires: 0 <= fam <= 6 and 0 <= site < 20 and 1 <= len(v) <= 4 and not is_marker(v)
    """
    # identifier tokens: the parser must hand ANY spelling through unchanged (the lexer decides what an identifier is)
    sent, mod, i = _site(fam, site, False)
    if sent is None:
        return True
    f.substitute(mod, i, v)
    return _judge([mod], [1], sent.dialect)


def one_text(fam: int, site: int, v: str) -> bool:
    """
    requires: 0 <= fam <= 6 and 0 <= site < 8 and len(v) <= 5 and quoted(v) and not is_marker(v[1:])
    """
    sent, mod, i = _site(fam, site, True)
    if sent is None:
        return True
    f.substitute(mod, i, v)
    return _judge([mod], [1], sent.dialect)


def reach_site(fam: int, site: int, v: str) -> bool:
    """
    requires: 0 <= fam <= 6 and 0 <= site < 20 and 1 <= len(v) <= 5
    """
    sent, mod, i = _site(fam, site, False)
    return sent is None


from harness.families import is_marker  # noqa: E402  (visible to the requires: lines)


def dropped_witness(which: int) -> bool:
    """
    requires: 0 <= which <= 2
    """
    # clauses the grammar accepts but whose arguments are NOT kept in the tree (known finding)
    sent = [f.f_module_identity(0, True), f.f_module_compliance(False, 0, 1, 0, 1, True), f.f_agent_capabilities(False, True, True)][which]
    mod = f.module('ZQMOD', 0, 1, False, False, [sent])
    trees = tok.parse_tokens(mod.toks)
    return f.check_leaves(trees[0], mod.expect + mod.dropped)


def conditions(prop, tier):
    q = tier == 'quick'
    t = 280 if q else 1500
    out = []
    out.append(dict(name='C02.tree.valueDeclaration', fn='value_decl', fixed={}, timeout=t,
                    bounds='4 OID spellings, arcs unbounded in 0..2^32-1; IMPORTS with 0..3 clauses of 1..3 symbols (from distinct modules or repeatedly from the same one), module OID, EXPORTS'))
    out.append(dict(name='C02.tree.objectIdentity', fn='object_identity', fixed={}, timeout=t, bounds='REFERENCE on/off, 4 OID spellings, arcs unbounded'))
    for variant in range(9):
        if q and variant in (2, 6, 7, 8):
            continue
        out.append(dict(name='C02.tree.objectType.syntax%d' % variant, fn='object_type',
                        fixed=dict(variant=variant, idx=0, nidx=1, im0=False, im1=False, defval=0, dv=0, units=True, ref=False), timeout=t,
                        bounds='OBJECT-TYPE with SYNTAX variant %d, numbers unbounded within +-(2^64-1) (token class follows the magnitude), '
                               'MAX-ACCESS / DESCRIPTION present or absent' % variant))
    for defval in range(7):
        out.append(dict(name='C02.tree.objectType.defval%d' % defval, fn='object_type',
                        fixed=dict(variant=0, defval=defval, a=0, b=0, idx=0, nidx=1, im0=False, im1=False), timeout=t,
                        bounds='OBJECT-TYPE with DEFVAL notation %d (number unbounded incl. 0), UNITS/MAX-ACCESS/DESCRIPTION/REFERENCE on/off' % defval))
    out.append(dict(name='C02.tree.objectType.index', fn='object_type',
                    fixed=dict(variant=0, defval=0, dv=0, a=0, b=0, units=False, ref=False, descr=True, access=True), timeout=t,
                    bounds='INDEX list of 1..3 with IMPLIED flags / AUGMENTS / neither'))
    out.append(dict(name='C02.tree.trapType', fn='trap_type', fixed={}, timeout=t,
                    bounds='TRAP-TYPE: VARIABLES absent or 1..3 long, DESCRIPTION/REFERENCE on/off, number unbounded, upper/lower-case name'))
    out.append(dict(name='C02.tree.notificationType', fn='notification_type', fixed={}, timeout=t, bounds='OBJECTS absent or 1..3 long, REFERENCE on/off'))
    out.append(dict(name='C02.tree.moduleIdentity', fn='module_identity', fixed=dict(subj=False), timeout=t, bounds='0..3 REVISION clauses'))
    out.append(dict(name='C02.tree.groups', fn='group', fixed={}, timeout=t, bounds='OBJECT-GROUP / NOTIFICATION-GROUP with 1..3 members, REFERENCE on/off'))
    out.append(dict(name='C02.tree.moduleCompliance', fn='module_compliance', fixed=dict(refine=False), timeout=t,
                    bounds='MODULE named or not, MANDATORY-GROUPS 0..2, every interleaving of <=2 GROUP/OBJECT clauses'))
    out.append(dict(name='C02.tree.agentCapabilities', fn='agent_capabilities', fixed=dict(supports=False, variation=False), timeout=t, bounds='REFERENCE on/off'))
    for form in range(4):
        out.append(dict(name='C02.tree.type.form%d' % form, fn='type_decl', fixed=dict(form=form), timeout=t,
                        extra_pre=['in32x(a, b)'] if q else [],
                        bounds='type assignment form %d (plain, TEXTUAL-CONVENTION, SEQUENCE, CHOICE) x 9 SYNTAX variants, DISPLAY-HINT/REFERENCE on/off, numbers unbounded' % form))
    out.append(dict(name='C02.tree.file-layout', fn='file_layout', fixed={}, timeout=t,
                    extra_pre=['n0 <= 2 and n1 <= 1 and p < 2 and k0 <= 2 and k1 <= 2 and k2 == 0'] if q else [],
                    bounds='1..2 modules per file, 0..3 declarations of symbolic kind (value, object, TC, notification, MACRO) in symbolic order'))
    for fam in range(7):
        if q and fam in (2, 5, 6):
            continue
        out.append(dict(name='C02.tree.one-ident.fam%d' % fam, fn='one_ident', fixed=dict(fam=fam), timeout=t,
                        extra_pre=['len(v) <= %d' % (3 if q else 4)], reach_fn='reach_site',
                        bounds='rich sentence of family %d; ONE identifier token, chosen by symbolic index over all identifier-valued '
                               'information tokens, carries an arbitrary symbolic string (len<=%d)' % (fam, 3 if q else 4)))
        out.append(dict(name='C02.tree.one-text.fam%d' % fam, fn='one_text', fixed=dict(fam=fam), timeout=t,
                        extra_pre=['len(v) <= %d' % (4 if q else 5)], reach_fn='reach_site',
                        bounds='rich sentence of family %d; ONE quoted-string token, chosen by symbolic index, carries a symbolic quoted value '
                               '(len<=%d incl. quotes)' % (fam, 4 if q else 5)))
    return out


def in32x(*vs):
    for v in vs:
        if not (-U32 <= v <= U32):
            return False
    return True


def selftests(prop):
    return [('value_decl', dict(shape=2, a=5, b=6, nimp=2, nsym=3, modoid=True, exports=True, samefrom=False)),
            ('value_decl', dict(shape=0, a=5, b=6, nimp=3, nsym=2, modoid=False, exports=False, samefrom=True)),
            ('object_identity', dict(ref=True, shape=3, a=5, b=6)),
            ('object_type', dict(variant=3, units=True, access=True, descr=True, ref=True, idx=1, nidx=3, im0=True, im1=False, defval=5, dv=0, a=-1, b=2)),
            ('object_type', dict(variant=1, units=False, access=False, descr=False, ref=False, idx=2, nidx=1, im0=False, im1=False, defval=1, dv=0, a=-U64, b=U64)),
            ('trap_type', dict(nvars=1, descr=True, ref=False, number=0, upper=True)),
            ('notification_type', dict(nobj=-1, ref=True)), ('module_identity', dict(nrev=3, subj=False)),
            ('group', dict(notif=True, n=3, ref=True)),
            ('module_compliance', dict(named=True, nmand=2, c0=0, c1=0, ncl=2, refine=False)),
            ('agent_capabilities', dict(ref=True, supports=False, variation=False)),
            ('type_decl', dict(form=1, variant=8, display=True, ref=True, a=5, b=0)),
            ('type_decl', dict(form=3, variant=0, display=False, ref=False, a=0, b=0)),
            ('file_layout', dict(nmods=2, n0=3, n1=2, p=4, k0=0, k1=4, k2=2, a=9)),
            ('one_text', dict(fam=0, site=1, v='"x"')), ('one_ident', dict(fam=1, site=0, v='ab'))]
