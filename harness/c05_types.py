"""C05: types, constraints and DEFVALs survive compilation exactly (TOK + XH, JSON side).

Real code: t_NUMBER (lexer action), p_SimpleSyntax/p_ApplicationSyntax/p_integerSubType/p_octetStringSubType/p_ranges/
p_range/p_value/p_enumSpec/p_enumItems/p_NamedBits/p_DefValPart/p_Value/p_BitNames ... through the LR driver,
SymtableCodeGen (genSimpleSyntax/genTypeDeclaration/regSym/regPostponedSyms/genDefVal), IntermediateCodeGen
(genIntegerSubType/genOctetStringSubType/genEnumSpec/genBits/genSimpleSyntax/getBaseType/genDefVal/str2int/isHex/isBinary).
"""
import itertools

from harness import tok, smimodel as m
from harness.tok import seq, LC, UC, QS
from pysmi import error

U32 = 4294967295
U64 = 18446744073709551615
PERMS3 = list(itertools.permutations(range(3)))
PERMS4 = list(itertools.permutations(range(4)))
LABELS = ['up', 'down', 'class', 'a-b', 'x1']        # plain, Python keyword, hyphenated


def pick(table, k):
    for i in range(len(table)):
        if k == i:
            return table[i]
    return table[0]


def in64(*vs):
    for v in vs:
        if not (-U64 <= v <= U64):
            return False
    return True


def in32(*vs):
    for v in vs:
        if not (-U32 <= v <= U32):
            return False
    return True


# ---- token classes of numbers (real t_NUMBER action on a symbolic int) -----------------------------------

def num_token(v: int) -> bool:
    """
    requires: -U64 - 3 <= v <= U64 + 3
    """
    lx = tok.get_parser('smiV2').lexer
    t = tok.Tok('NUMBER', v, 7)
    t.lexer = lx.lexer
    try:
        r = lx.t_NUMBER(t)
    except error.PySmiLexerError as e:
        return (v > U64 or v < -U64) and e.lineno == 7
    except Exception:
        return False
    if r.value != v:
        return False
    if 0 <= v <= U32:
        return r.type == 'NUMBER'
    if -U32 <= v < 0:
        return r.type == 'NEGATIVENUMBER'
    if U32 < v <= U64:
        return r.type == 'NUMBER64'
    if -U64 <= v < -U32:
        return r.type == 'NEGATIVENUMBER64'
    return False


# ---- ranges / sizes ---------------------------------------------------------------------------------------

BASES = ['Integer32', 'INTEGER', 'Unsigned32', 'Gauge32', 'Counter64', 'MyInt']
BASE_TYPE = {'Integer32': 'Integer32', 'INTEGER': 'INTEGER', 'Unsigned32': 'Unsigned32', 'Gauge32': 'Gauge32',
             'Counter64': 'Counter64', 'MyInt': 'MyInt'}


def _alts(n, s0, s1, s2, lo0, hi0, lo1, hi1, lo2, hi2):
    alts = [(lo0,) if s0 else (lo0, hi0)]
    if n >= 2:
        alts.append((lo1,) if s1 else (lo1, hi1))
    if n >= 3:
        alts.append((lo2,) if s2 else (lo2, hi2))
    return alts


def _cmp_alts(got, alts):
    if len(got) != len(alts):
        return False
    for g, a in zip(got, alts):
        if g['min'] != a[0] or g['max'] != a[-1]:
            return False
    return True


def _one_object(syntax_toks, extra_decls=(), defval=None, dialect='smiV2'):
    d = m.object_type('x', syntax_toks, m.oid('iso', 3), descr=m.text('d'), defval=defval, dialect=dialect)
    toks = m.module('M', [('SNMPv2-SMI', ['Opaque', 'Counter64', 'Gauge32', 'Unsigned32', 'Integer32'])],
                    list(extra_decls) + [d], dialect=dialect)
    trees = tok.parse_tokens(toks, dialect)
    return tok.compile_trees(trees, backend='json')


def int_ranges(base: int, in_type: bool, n: int, s0: bool, s1: bool, s2: bool,
               lo0: int, hi0: int, lo1: int, hi1: int, lo2: int, hi2: int) -> bool:
    """
    requires: 0 <= base < 6 and 1 <= n <= 3 and in64(lo0, hi0, lo1, hi1, lo2, hi2)
    """
    b = pick(BASES, base)
    alts = _alts(n, s0, s1, s2, lo0, hi0, lo1, hi1, lo2, hi2)
    syn = seq(b, '(', m.ranges(alts), ')')
    extra = []
    if b == 'MyInt':
        extra.append(m.type_decl('MyInt', seq('Integer32')))
    try:
        if in_type:
            # the refinement sits on a type assignment, the object refers to the type
            extra.append(m.type_decl('Refined', syn))
            res = _one_object(seq('Refined'), extra)
            got = res.ctx['M']['Refined']['type']
        else:
            res = _one_object(syn, extra)
            got = res.ctx['M']['x']['syntax']
    except error.PySmiError:
        return False
    want_type = {'INTEGER': 'INTEGER'}.get(b, b)
    if got['type'] != want_type:
        return False
    return _cmp_alts(got['constraints']['range'], alts)


def octet_sizes(base: int, n: int, s0: bool, s1: bool, s2: bool,
                lo0: int, hi0: int, lo1: int, hi1: int, lo2: int, hi2: int) -> bool:
    """
    requires: 0 <= base <= 2 and 1 <= n <= 3 and in64(lo0, hi0, lo1, hi1, lo2, hi2)
    """
    alts = _alts(n, s0, s1, s2, lo0, hi0, lo1, hi1, lo2, hi2)
    bt = pick(['OCTET STRING', 'Opaque', 'MyStr'], base)
    syn = seq(bt, '( SIZE (', m.ranges(alts), ') )')
    extra = [m.type_decl('MyStr', seq('OCTET STRING'))] if bt == 'MyStr' else []
    try:
        res = _one_object(syn, extra)
    except error.PySmiError:
        return False
    got = res.ctx['M']['x']['syntax']
    if got['type'] != bt:
        return False
    return _cmp_alts(got['constraints']['size'], alts)


# hex / binary literals as range bounds: the literal and the integer it denotes
LITS = [("'0'H", 0), ("'ff'H", 255), ("'FF'h", 255), ("'7fffffff'H", 2147483647), ("'0a'H", 10),
        ("'0'B", 0), ("'101'b", 5), ("'11111111'B", 255), ("'00000001'B", 1)]


def literal_ranges(i0: int, i1: int, single: bool, size: bool) -> bool:
    """
    requires: 0 <= i0 < len(LITS) and 0 <= i1 < len(LITS)
    """
    l0, l1 = pick(LITS, i0), pick(LITS, i1)

    def lit(l):
        return ('HEX_STRING' if l[0][-1] in 'hH' else 'BIN_STRING', l[0])
    rng = [lit(l0)] if single else [lit(l0), ('DOT_DOT', '..'), lit(l1)]
    try:
        if size:
            res = _one_object(seq('OCTET STRING ( SIZE (', rng, ') )'))
            got = res.ctx['M']['x']['syntax']['constraints']['size']
        else:
            res = _one_object(seq('Integer32 (', rng, ')'))
            got = res.ctx['M']['x']['syntax']['constraints']['range']
    except error.PySmiError:
        return False
    return len(got) == 1 and got[0]['min'] == l0[1] and got[0]['max'] == (l0[1] if single else l1[1])


# ---- enumerations and BITS ----------------------------------------------------------------------------------

def _items(n, p, v0, v1, v2):
    labs = [LABELS[i] for i in pick(PERMS4, p)[:n]] if n <= 4 else LABELS[:n]
    vals = [v0, v1, v2][:n]
    return list(zip(labs, vals))


def enums(base: int, n: int, p: int, v0: int, v1: int, v2: int) -> bool:
    """
    requires: 0 <= base <= 1 and 1 <= n <= 3 and 0 <= p < 24 and in32(v0, v1, v2)
    requires: v0 != v1 and v1 != v2 and v0 != v2
    """
    items = _items(n, p, v0, v1, v2)
    syn = seq(pick(['INTEGER', 'MyEnum'], base), '{', m.enum_items(items), '}')
    extra = [m.type_decl('MyEnum', seq('INTEGER'))] if base == 1 else []
    try:
        res = _one_object(syn, extra)
    except error.PySmiError:
        return False
    got = res.ctx['M']['x']['syntax']
    en = got['constraints']['enumeration']
    if len(en) != n:
        return False
    for lab, v in items:
        if lab not in en or en[lab] != v:
            return False
    return True


def bits(n: int, p: int, v0: int, v1: int, v2: int) -> bool:
    """
    requires: 1 <= n <= 3 and 0 <= p < 24 and 0 <= v0 <= U32 and 0 <= v1 <= U32 and 0 <= v2 <= U32
    requires: v0 != v1 and v1 != v2 and v0 != v2
    """
    items = _items(n, p, v0, v1, v2)
    syn = seq('BITS {', m.enum_items(items), '}')
    try:
        res = _one_object(syn)
    except error.PySmiError:
        return False
    got = res.ctx['M']['x']['syntax']
    if got['type'] != 'Bits':
        return False
    b = got['bits']
    if len(b) != n:
        return False
    for lab, v in items:
        if lab not in b or b[lab] != v:
            return False
    return True


# ---- base type through chains of derived types; DEFVAL ------------------------------------------------------

def _chain(depth, kind, order, split):
    """type chain T1 -> T2 -> T3 -> base (depth 0..3 links); returns (syntax tokens for the object, modules)
    kind: 0 Integer32, 1 OCTET STRING, 2 enum INTEGER {up(1),down(2)}, 3 BITS {b0(0),b1(1)}, 4 OBJECT IDENTIFIER,
          5 Unsigned32 (application type imported from the mini SNMPv2-SMI)"""
    base = [seq('Integer32'), seq('OCTET STRING'), seq('INTEGER { up(1), down(2) }'), seq('BITS { b0(0), b1(1) }'),
            seq('OBJECT IDENTIFIER'), seq('Unsigned32')][kind]
    names = ['T1', 'T2', 'T3'][:depth]
    decls = []
    for i, n in enumerate(names):
        rhs = seq(names[i + 1]) if i + 1 < depth else base
        if i == 1:
            decls.append(m.textual_convention(n, rhs))         # a TEXTUAL-CONVENTION in the middle of the chain
        else:
            decls.append(m.type_decl(n, rhs))
    obj_syntax = seq(names[0]) if depth else base
    return obj_syntax, decls


MINI_SMI = None


def mini_smi():
    global MINI_SMI
    if MINI_SMI is None:
        MINI_SMI = m.module('SNMPv2-SMI', [], [seq('Unsigned32 ::= [APPLICATION 2] IMPLICIT INTEGER (0..4294967295)')])
    return list(MINI_SMI)


BASETYPE = ['Integer32', 'OctetString', 'Integer32', 'Bits', 'ObjectIdentifier', 'Integer32']


def _defval_case(depth, kind, perm, split, defval_toks):
    obj_syntax, tdecls = _chain(depth, kind, perm, split)
    d = m.object_type('x', obj_syntax, m.oid('iso', 3), descr=m.text('d'), defval=defval_toks)
    target = m.value_decl('tg-t', m.oid('iso', 3, 9))     # hyphenated: the label is looked up by its mapped name
    mods = []
    if split and depth >= 2:
        # the tail of the chain lives in another module and is imported
        other = tdecls[1:]
        mine = [tdecls[0]]
        order = pick(PERMS3, perm % 6)
        body = [mine[0], d, target]
        body = [body[i] for i in order]
        imports = [('OTHER', ['T2'])]
        if kind == 5:
            imports.append(('SNMPv2-SMI', ['Unsigned32']))
        main = m.module('M', [('OTHER', ['T2'])], body)
        oth = m.module('OTHER', [('SNMPv2-SMI', ['Unsigned32'])] if kind == 5 else [], list(reversed(other)) if perm >= 6 else other)
        mods = [main, oth]
    else:
        body = tdecls + [d, target]
        order = pick(PERMS4, perm) if len(body) == 4 else (pick(PERMS3, perm % 6) if len(body) == 3 else None)
        if order is not None:
            body = [body[i] for i in order]
        elif len(body) == 5:
            # depth 3: rotate / reverse the five declarations
            k = perm % 5
            body = body[k:] + body[:k]
            if perm >= 12:
                body = list(reversed(body))
        elif perm % 2:
            body = list(reversed(body))
        main = m.module('M', [('SNMPv2-SMI', ['Unsigned32'])] if kind == 5 else [], body)
        mods = [main]
    if kind == 5:
        mods.append(mini_smi())
    trees = []
    for t in mods:
        trees.extend(tok.parse_tokens(t))
    res = tok.compile_trees(trees, backend='json')
    return res.ctx['M']['x']


def defval_number(depth: int, kind: int, perm: int, split: bool, v: int) -> bool:
    """
    requires: 0 <= depth <= 3 and 0 <= perm < 24 and in64(v)
    requires: kind == 0 or kind == 5
    """
    try:
        x = _defval_case(depth, kind, perm, split, [tok.number_token(v)])
    except error.PySmiError:
        return False
    if 'default' not in x:
        return False
    dv = x['default']
    if 'default' not in dv:
        return False                # every notation is reported as {'default': {basetype, format, value}}
    dv = dv['default']
    return dv['basetype'] == BASETYPE[kind] and dv['value'] == v and dv['format'] == 'decimal'


STRS = ['""', '"a"', '"a b"', '"\'"']
HEXS = [("''H", ''), ("'00'H", '00'), ("'0aFF'h", '0aFF')]
# expected hex digits: one per four bits, leading zeros kept (the octets the literal denotes), written down here - not derived from the code
BINS = [("''B", ''), ("'0'b", '0'), ("'00001010'B", '0a'), ("'1'B", '1'), ("'0000000011111111'B", '00ff')]


def defval_other(depth: int, kind: int, perm: int, split: bool, notation: int, i: int) -> bool:
    """
    requires: 0 <= depth <= 3 and 0 <= perm < 24 and 0 <= kind <= 4 and 0 <= notation <= 5 and 0 <= i <= 4
    requires: (notation <= 2 and kind == 1) or (notation == 3 and kind == 2) or (notation == 4 and kind == 3) or (notation == 5 and kind == 4) or (1 <= notation <= 2 and kind == 0)
    """
    if notation == 0:
        s = pick(STRS, i)
        toks, want = [QS(s)], dict(value=s[1:len(s) - 1], format='string')
    elif notation == 1:
        h = pick(HEXS, i)
        toks = [('HEX_STRING', h[0])]
        want = dict(value=(str(int(h[1] or '0', 16)) if kind == 0 else h[1]), format='hex')
    elif notation == 2:
        b = pick(BINS, i)
        toks = [('BIN_STRING', b[0])]
        if kind == 0:
            want = dict(value=str(int(b[0][1:len(b[0]) - 2] or '0', 2)), format='bin')
        else:
            want = dict(value=b[1], format='hex')
    elif notation == 3:
        lab = pick(['up', 'down'], i)
        toks, want = [LC(lab)], dict(value=lab, format='enum')
    elif notation == 4:
        sets = [['b0'], ['b1'], ['b0', 'b1'], ['b1', 'b0']]
        names = pick(sets, i)
        toks = [('{', '{')]
        for j, nme in enumerate(names):
            if j:
                toks.append((',', ','))
            toks.append(LC(nme))
        toks.append(('}', '}'))
        want = dict(format='bits')
    else:
        toks, want = [LC('tg-t')], dict(value='(1, 3, 9)', format='oid')
    try:
        x = _defval_case(depth, kind, perm, split, toks)
    except error.PySmiError:
        return False
    if 'default' not in x:
        return False
    dv = x['default']
    if 'default' not in dv:
        return False                # every notation is reported as {'default': {basetype, format, value}}
    dv = dv['default']
    if notation == 4:
        if dv['basetype'] != 'Bits' or dv['format'] != 'bits':
            return False
        got = dv['value']['bits']
        return sorted(got.keys()) == sorted(names) and all(got[nme] == int(nme[1]) for nme in names)
    return dv['basetype'] == BASETYPE[kind] and dv['value'] == want['value'] and dv['format'] == want['format']


def conditions(prop, tier):
    q = tier == 'quick'
    t = 280 if q else 1500
    out = [dict(name='C05.t_NUMBER', fn='num_token', fixed={}, timeout=t,
                bounds='real t_NUMBER action on a symbolic int in -(2^64+2)..2^64+2 (the error message formatting realises the value, so the '
                       'beyond-64-bit region is bounded to 3 values each side): token class by magnitude, error beyond 64 bits, value unchanged')]
    for it in (False, True):
        out.append(dict(name='C05.ranges.n1-t%d' % it, fn='int_ranges', fixed=dict(n=1, in_type=it), timeout=t,
                        bounds='1 range alternative, single value or pair, bounds unbounded within +-(2^64-1) with the token class '
                               'following the magnitude (4 classes); 6 parent types incl. a local derived type; inline or via a type assignment'))
    for n in (2, 3):
        for base in ((0,) if q else (0, 1, 2, 5)):
            for it in ((False,) if q else (False, True)):
                out.append(dict(name='C05.ranges.n%d-b%d-t%d' % (n, base, it), fn='int_ranges', fixed=dict(n=n, in_type=it, base=base),
                                extra_pre=['in32(lo0, hi0, lo1, hi1, lo2, hi2)'], timeout=t,
                                bounds='%d range alternatives in order, each single or pair, bounds unbounded within +-(2^32-1) '
                                       '(2 token classes); parent type fixed per shard' % n))
    for n in (1, 2, 3):
        out.append(dict(name='C05.sizes.n%d' % n, fn='octet_sizes', fixed=dict(n=n), timeout=t,
                        extra_pre=['in32(lo0, hi0, lo1, hi1, lo2, hi2)'] if n > 1 else [],
                        bounds='%d SIZE alternative(s) on OCTET STRING / Opaque / derived type, bounds unbounded (n>1: within +-(2^32-1))' % n))
    out.append(dict(name='C05.literal-ranges', fn='literal_ranges', fixed={}, timeout=t,
                    bounds='hex and binary literals as bounds, picked by symbolic index from %d literals' % len(LITS)))
    for n in (1, 2, 3):
        out.append(dict(name='C05.enums.n%d' % n, fn='enums', fixed=dict(n=n), timeout=t,
                        bounds='%d enumeration items: labels = symbolic arrangement of a 4-label pool, values unbounded in +-(2^32-1), distinct' % n))
        out.append(dict(name='C05.bits.n%d' % n, fn='bits', fixed=dict(n=n), timeout=t,
                        bounds='%d BITS items: labels symbolic arrangement, positions unbounded in 0..2^32-1, distinct' % n))
    for depth in (0, 1, 2, 3):
        for sp in ((False, True) if depth >= 2 else (False,)):
            tag = 'd%d-s%d' % (depth, sp)
            out.append(dict(name='C05.defval-number.%s' % tag, fn='defval_number', fixed=dict(depth=depth, split=sp), timeout=t,
                            extra_pre=['perm < %d' % (3 if q else 24)],
                            bounds='DEFVAL {number}: value unbounded (incl. 0, negative, 64-bit), base Integer32 or imported Unsigned32 '
                                   'through a chain of %d derived types (one a TC), declaration order symbolic, chain split over two modules: %s' % (depth, sp)))
            out.append(dict(name='C05.defval-other.%s' % tag, fn='defval_other', fixed=dict(depth=depth, split=sp), timeout=t,
                            extra_pre=['perm < %d' % (6 if q else 24)],
                            bounds='DEFVAL notations string/hex/bin/enum label/bit list/OID label on the matching base types through a chain of %d '
                                   'derived types, order symbolic, split: %s' % (depth, sp)))
    # the DEFVAL form follows the base type of THIS compilation, also when the same generator objects compiled an earlier
    # release in which the type name stood for something else (condition shared with C12)
    for be in (0, 1):
        out.append(dict(name='C05.defval-two-releases.%s' % ('pysnmp' if be else 'json'), module='harness.c12_state', fn='two_releases',
                        fixed=dict(backend=be), timeout=t,
                        bounds='two releases of the same module names compiled by the same generator objects; the TC an object with DEFVAL refers to '
                               'stands for any ordered pair of 4 base types'))
    return out


def selftests(prop):
    return [('num_token', dict(v=-5)),
            ('int_ranges', dict(base=5, in_type=True, n=2, s0=True, s1=False, s2=False, lo0=-1, hi0=0, lo1=5, hi1=U64, lo2=0, hi2=0)),
            ('octet_sizes', dict(base=2, n=1, s0=False, s1=False, s2=False, lo0=0, hi0=255, lo1=0, hi1=0, lo2=0, hi2=0)),
            ('literal_ranges', dict(i0=1, i1=3, single=False, size=False)),
            ('enums', dict(base=1, n=3, p=5, v0=1, v1=-2, v2=3)),
            ('bits', dict(n=2, p=0, v0=0, v1=5, v2=9)),
            ('defval_number', dict(depth=2, kind=0, perm=0, split=True, v=5)),
            ('defval_number', dict(depth=1, kind=5, perm=0, split=False, v=5)),
            ('defval_other', dict(depth=1, kind=1, perm=0, split=False, notation=0, i=1)),
            ('defval_other', dict(depth=0, kind=3, perm=0, split=False, notation=4, i=2)),
            ('defval_other', dict(depth=0, kind=4, perm=0, split=False, notation=5, i=0)),
            ('defval_other', dict(depth=0, kind=2, perm=0, split=False, notation=3, i=1))]
