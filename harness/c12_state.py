"""C12: results depend only on the input - no state leaks between calls, no hash-seed dependence.

* inductive step (XH): the scratch state of a SymtableCodeGen / JsonCodeGen object is made SYMBOLIC (restricted to
  what __init__ and an earlier genCode can leave behind), then genCode runs on a model-generated tree; the result
  must equal that of a fresh object. One step from an arbitrary reachable state covers histories of any length.
* repetition / shared tree (XH): the same tree object is processed twice (as repeated compile() calls and the
  symtable-then-codegen sequence do).
* hash seed (XH + NondetSet): builtin `set` in the generator modules is replaced by a subclass whose iteration order is
  chosen by symbolic ints (models every hash seed); contexts must be identical for all orders.
* parser object reuse: harness/c11_reject.parse_wrapper (lexer state after success AND failure).
"""
import copy

from harness import tok, smimodel as m
from harness.tok import seq
from pysmi.codegen import symtable as _symtable, intermediate as _intermediate, jsondoc as _jsondoc
from pysmi import error


def pick(table, k):
    for i in range(len(table)):
        if k == i:
            return table[i]
    return table[0]


def _tree(has_mi, nrev, v1index, dialect='smiV2'):
    decls = [m.value_decl('root', m.oid('iso', 3))]
    if has_mi:
        revs = [('"200%d01010000Z"' % i, m.text('r%d' % i)) for i in range(nrev)]
        decls.append(m.module_identity('mi', m.oid('root', 1), revisions=revs))
    decls.append(m.object_type('sc', seq('Integer32'), m.oid('root', 2), descr=m.text('d')))
    if v1index:
        dialect = 'smiV1'
        decls.append(m.object_type('tTable', seq('SEQUENCE OF TEntry', dialect=dialect), m.oid('root', 3), access='not-accessible',
                                   status='mandatory', descr=m.text('d'), access_kw='ACCESS', dialect=dialect))
        decls.append(m.object_type('tEntry', seq('TEntry', dialect=dialect), m.oid('tTable', 1), access='not-accessible', status='mandatory',
                                   descr=m.text('d'), access_kw='ACCESS', dialect=dialect,
                                   index=[(False, seq('INTEGER', dialect=dialect)), (False, 't1')]))
        decls.append(m.object_type('t1', seq('INTEGER', dialect=dialect), m.oid('tEntry', 1), status='mandatory', descr=m.text('d'),
                                   access_kw='ACCESS', dialect=dialect))
        decls.append(m.sequence_type('TEntry', [('t1', 'INTEGER')]))
    toks = m.module('M', [], decls, dialect=dialect)
    return tok.parse_tokens(toks, dialect)[0]


def _info(mi):
    return (mi.name, mi.revision, mi.identity, sorted(mi.oids or ()), mi.enterprise, list(mi.compliance or ()), tuple(mi.imported))


def symtable_step(has_mi: bool, nrev: int, v1index: bool, dirty_rev: bool, fakeidx: int, dirty_rows: bool,
                  dirty_imports: bool, dirty_post: bool, dirty_out: bool, gen_texts_before: bool) -> bool:
    """
    requires: 0 <= nrev <= 2 and 1000 <= fakeidx
    """
    tree = _tree(has_mi, nrev, v1index)
    g = _symtable.SymtableCodeGen()
    # a state an earlier genCode() call on some other module can leave behind
    if dirty_rev:
        g._moduleRevision = ('1999-01-01 00:00', 'old')
    g.fakeidx = fakeidx
    if dirty_rows:
        g._rows.add('OldEntry')
        g._cols['oldCol'] = 'Integer32'
        g._parentOids.add('oldParent')
        g._symsOrder.append('oldSym')
    if dirty_imports:
        g._importMap['root'] = 'OLD-MIB'
        g._importMap['Integer32'] = 'OLD-MIB'
    if dirty_post:
        g._postponedSyms['oldPost'] = (['Nowhere'], {})
    if dirty_out:
        g._out['sc'] = {'type': 'old'}
    g.moduleName[0] = 'OLD-MIB'
    g.genRules['text'] = gen_texts_before
    try:
        mi1, st1 = g.genCode(copy.deepcopy(tree), {})
        r1 = 'ok'
    except error.PySmiError:
        mi1 = st1 = None
        r1 = 'err'
    f = _symtable.SymtableCodeGen()
    try:
        mi2, st2 = f.genCode(copy.deepcopy(tree), {})
        r2 = 'ok'
    except error.PySmiError:
        mi2 = st2 = None
        r2 = 'err'
    if r1 != r2:
        return False
    if r1 == 'err':
        return True
    return _info(mi1) == _info(mi2) and st1 == st2


def codegen_step(has_mi: bool, nrev: int, dirty_rev: bool, dirty_ident: bool, dirty_oids: bool, dirty_seen: bool,
                 dirty_imports: bool, fakeidx: int, gen_texts_before: bool, backend: int) -> bool:
    """
    requires: 0 <= nrev <= 2 and 1000 <= fakeidx and 0 <= backend <= 1
    """
    tok.install_jinja_capture()
    tree = _tree(has_mi, nrev, False)
    mi, st = _symtable.SymtableCodeGen().genCode(copy.deepcopy(tree), {})
    symtab = {'M': st}
    cls = (_jsondoc.JsonCodeGen, tok._pysnmp.PySnmpCodeGen)[backend]
    g = cls()
    if dirty_rev:
        g._moduleRevision = '1999-01-01 00:00'
    if dirty_ident:
        g._moduleIdentityOid = '1.9.9'
        g._enterpriseOid = '1.3.6.1.4.1.99'
    if dirty_oids:
        g._oids.add('1.9.9.9')
        g._complianceOids.append('1.9.9.8')
    if dirty_seen:
        g._seenSyms.add('sc')
        g._out['sc'] = {'old': 1}
        g._rows.add('OldEntry')
        g._cols['oldCol'] = 1
    if dirty_imports:
        g._importMap['root'] = 'OLD-MIB'
    g.fakeidx = fakeidx
    g.moduleName[0] = 'OLD-MIB'
    g.genRules['text'] = gen_texts_before
    g.symbolTable = {'OLD-MIB': {}}
    mi1, ctx1 = g.genCode(copy.deepcopy(tree), copy.deepcopy(symtab))
    mi2, ctx2 = cls().genCode(copy.deepcopy(tree), copy.deepcopy(symtab))
    return _info(mi1) == _info(mi2) and ctx1 == ctx2


def repeat(has_mi: bool, nrev: int, share_tree: bool, backend: int) -> bool:
    """
    requires: 0 <= nrev <= 2 and 0 <= backend <= 1
    """
    # the same objects process the same module twice; with share_tree the very same tree object is reused
    tok.install_jinja_capture()
    tree = _tree(has_mi, nrev, False)
    sg = _symtable.SymtableCodeGen()
    cg = (_jsondoc.JsonCodeGen, tok._pysnmp.PySnmpCodeGen)[backend]()
    outs = []
    for i in range(2):
        t = tree if share_tree else copy.deepcopy(tree)
        mi, st = sg.genCode(t, {})
        mi2, ctx = cg.genCode(t, {'M': st})
        outs.append((_info(mi), copy.deepcopy(st), _info(mi2), copy.deepcopy(ctx)))
    a, b = outs
    # the imports listing may legitimately be deduplicated differently only if the VALUES differ: compare as sets
    return a[0] == b[0] and a[1] == b[1] and a[2] == b[2] and _norm(a[3]) == _norm(b[3])


def _norm(ctx):
    out = {}
    for k, v in ctx.items():
        if k == 'imports':
            out[k] = dict((mk, sorted(mv) if isinstance(mv, list) else mv) for mk, mv in v.items())
        else:
            out[k] = v
    return out


BASES = ['Integer32', 'OCTET STRING', 'INTEGER { fast ( 1 ) , off ( 2 ) }', 'BITS { fast ( 0 ) , off ( 1 ) }']
DEFVALS = [[('NUMBER', 1)], [('HEX_STRING', "'0A'h")], [tok.LC('fast')], [('{', '{'), tok.LC('fast'), (',', ','), tok.LC('off'), ('}', '}')]]


def _release(bi):
    """a TC module and a module using it; `bi` selects what the SAME type name stands for in this release"""
    tcmod = m.module('TC-MIB', [], [m.textual_convention('Level', seq(BASES[bi]))])
    # ... and where the module's subtree hangs (a draft under one arc, the published module under another)
    dev = m.module('DEV-MIB', [('TC-MIB', ['Level'])],
                   [m.value_decl('devRoot', m.oid('iso', pick([3, 4, 5, 6], bi))),
                    m.object_type('lvl', seq('Level'), m.oid('devRoot', 1), descr=m.text('d'), defval=DEFVALS[bi]),
                    m.object_type('oidObj', seq('OBJECT IDENTIFIER'), m.oid('devRoot', 2), descr=m.text('d'), defval=[tok.LC('devRoot')])])
    return [tok.parse_tokens(tcmod)[0], tok.parse_tokens(dev)[0]]


def _gen_all(sg, cg, trees):
    symtab = {}
    for t in trees:
        mi, st = sg.genCode(t, symtab)
        symtab[mi.name] = st
    out = []
    for t in trees:
        mi, ctx = cg.genCode(t, symtab)
        out.append((_info(mi), copy.deepcopy(ctx)))
    return out


def two_releases(b1: int, b2: int, backend: int) -> bool:
    """
    requires: 0 <= b1 < 4 and 0 <= b2 < 4 and 0 <= backend <= 1
    """
    # the same generator objects compile release 1 and then release 2 of the same module names (as a long-lived
    # MibCompiler does); release 2 must come out exactly as with fresh objects
    tok.install_jinja_capture()
    cls = (_jsondoc.JsonCodeGen, tok._pysnmp.PySnmpCodeGen)[backend]
    sg, cg = _symtable.SymtableCodeGen(), cls()
    try:
        _gen_all(sg, cg, _release(b1))
        reused = _gen_all(sg, cg, _release(b2))
        fresh = _gen_all(_symtable.SymtableCodeGen(), cls(), _release(b2))
    except error.PySmiError:
        return False
    return reused == fresh


def results_stable(na: int, nb: int, has_mc: bool, backend: int) -> bool:
    """
    requires: 1 <= na <= 2 and 1 <= nb <= 2 and 0 <= backend <= 1
    """
    # what was handed back for module A (summary, symbol table, context) is still the same after the SAME generator objects
    # processed module B: compile() reads all summaries only after the last module was generated
    tok.install_jinja_capture()
    cls = (_jsondoc.JsonCodeGen, tok._pysnmp.PySnmpCodeGen)[backend]

    def mod(name, root, n):
        decls = [m.module_identity(name.lower() + 'Id', m.oid('iso', root))]
        for i in range(n):
            decls.append(m.value_decl('%sNode%d' % (name.lower(), i), m.oid('iso', root, i + 1)))
        if has_mc:
            decls.append(m.module_compliance(name.lower() + 'Mc', m.oid('iso', root, 9)))
        return tok.parse_tokens(m.module(name, [], decls))[0]
    ta, tb = mod('A-MIB', 3, na), mod('B-MIB', 4, nb)
    sg, cg = _symtable.SymtableCodeGen(), cls()
    symtab = {}
    try:
        mia, sta = sg.genCode(ta, symtab)
        symtab[mia.name] = sta
        snap_s = (_info(mia), copy.deepcopy(sta))
        mib, stb = sg.genCode(tb, symtab)
        symtab[mib.name] = stb
        if (_info(mia), sta) != snap_s:
            return False
        ma, ctxa = cg.genCode(ta, symtab)
        snap_c = (_info(ma), sorted(ma.oids), list(ma.compliance), copy.deepcopy(ctxa))
        mb, ctxb = cg.genCode(tb, symtab)
    except error.PySmiError:
        return False
    if (_info(ma), sorted(ma.oids), list(ma.compliance), ctxa) != snap_c:
        return False
    # and the two summaries are really different objects with different contents
    return sorted(ma.oids) != sorted(mb.oids) and ma.identity != mb.identity


class NondetSet(set):
    """a set whose iteration order is decided by the harness (models an arbitrary hash seed)"""
    rot = 0
    rev = False

    def __iter__(self):
        items = sorted(set.__iter__(self), key=repr)
        if items:
            k = NondetSet.rot % len(items)
            items = items[k:] + items[:k]
        if NondetSet.rev:
            items.reverse()
        return iter(items)


def hash_seed(rot: int, rev: bool, nimp: int, backend: int) -> bool:
    """
    requires: 0 <= rot <= 4 and 1 <= nimp <= 3 and 0 <= backend <= 1
    """
    tok.install_jinja_capture()
    syms = ['alpha', 'beta', 'gamma'][:nimp]
    # several symbols wait for the SAME later-declared parent (OID parent / base type): whatever container holds the
    # postponed symbols, the order in which they are released must not depend on set iteration
    decls = [m.value_decl('n1', m.oid('later', 1)), m.value_decl('n2', m.oid('later', 2)), m.value_decl('n3', m.oid('later', 3)),
             m.type_decl('T1', seq('Later')), m.type_decl('T2', seq('Later')), m.type_decl('T3', seq('Later')),
             m.value_decl('later', m.oid('root', 5)), m.textual_convention('Later', seq('Integer32')),
             m.value_decl('root', m.oid('alpha', 3))]
    toks = m.module('M', [('OTHER-MIB', syms)], decls)
    other = {'OTHER-MIB': {'alpha': {'type': 'MibIdentifier', 'oid': (1, 9), 'origName': 'alpha'}}}

    def run(r, v):
        NondetSet.rot, NondetSet.rev = r, v
        tree = tok.parse_tokens(toks)[0]
        sg = _symtable.SymtableCodeGen()
        mi, st = sg.genCode(tree, dict(other))
        cg = (_jsondoc.JsonCodeGen, tok._pysnmp.PySnmpCodeGen)[backend]()
        mi2, ctx = cg.genCode(tree, dict(other, M=st))
        return _info(mi), st, _info(mi2), ctx

    _symtable.set = NondetSet
    _intermediate.set = NondetSet
    try:
        base = run(0, False)
        alt = run(rot, rev)
    finally:
        del _symtable.set
        del _intermediate.set
    if base[0] != alt[0] or base[1] != alt[1] or base[2] != alt[2]:
        return False
    # the generated document must be identical, including the ORDER of every list in it
    return _same_ordered(base[3], alt[3])


def _same_ordered(a, b):
    if isinstance(a, dict):
        if not isinstance(b, dict) or list(a.keys()) != list(b.keys()):
            return False
        for k in a:
            if not _same_ordered(a[k], b[k]):
                return False
        return True
    if isinstance(a, (list, tuple)):
        if not isinstance(b, (list, tuple)) or len(a) != len(b):
            return False
        for x, y in zip(a, b):
            if not _same_ordered(x, y):
                return False
        return True
    return a == b


def conditions(prop, tier):
    q = tier == 'quick'
    t = 280 if q else 1500
    out = []
    for v1 in (False, True):
        out.append(dict(name='C12.symtable-step.v1idx%d' % v1, fn='symtable_step', fixed=dict(v1index=v1), timeout=t,
                        bounds='SymtableCodeGen with symbolic scratch state (_moduleRevision set or not, fakeidx unbounded >= 1000, rows/cols/parents/'
                               'order, import map, postponed symbols, output dict, module name, text flag) vs a fresh object; module with/without '
                               'MODULE-IDENTITY and 0..2 revisions' + ('; SMIv1 INDEX { INTEGER } (fake columns)' if v1 else '')))
    for be in (0, 1):
        out.append(dict(name='C12.codegen-step.%s' % ('pysnmp' if be else 'json'), fn='codegen_step', fixed=dict(backend=be), timeout=t,
                        bounds='code generator with symbolic scratch state (_moduleRevision, identity/enterprise OIDs, OID sets, seen symbols/output, '
                               'import map, fakeidx unbounded, module name, text flag, symbol table) vs a fresh object'))
        out.append(dict(name='C12.two-releases.%s' % ('pysnmp' if be else 'json'), fn='two_releases', fixed=dict(backend=be), timeout=t,
                        bounds='one symbol-table builder and one code generator compile two releases of the same two module names in which the same '
                               'TC name stands for any of 4 base types (with a matching DEFVAL): every ordered pair; compared with fresh objects'))
        out.append(dict(name='C12.results-stable.%s' % ('pysnmp' if be else 'json'), fn='results_stable', fixed=dict(backend=be), timeout=t,
                        bounds='two modules (1-2 nodes each, MODULE-IDENTITY, optional MODULE-COMPLIANCE) through ONE symbol-table builder and ONE '
                               'code generator: the summary / symbol table / context handed back for the first is unchanged after the second'))
        out.append(dict(name='C12.repeat.%s' % ('pysnmp' if be else 'json'), fn='repeat', fixed=dict(backend=be), timeout=t,
                        bounds='the same generator objects process the same module twice, on the same tree object or on a copy'))
        out.append(dict(name='C12.hash-seed.%s' % ('pysnmp' if be else 'json'), fn='hash_seed', fixed=dict(backend=be), timeout=t,
                        bounds='every rotation/reversal of the iteration order of every set() used while generating (1..3 imported symbols)'))
    return out


def selftests(prop):
    return [('symtable_step', dict(has_mi=True, nrev=2, v1index=False, dirty_rev=False, fakeidx=1000, dirty_rows=True, dirty_imports=False,
                                   dirty_post=False, dirty_out=True, gen_texts_before=True)),
            ('codegen_step', dict(has_mi=True, nrev=1, dirty_rev=False, dirty_ident=True, dirty_oids=True, dirty_seen=True, dirty_imports=False,
                                  fakeidx=1000, gen_texts_before=True, backend=0)),
            ('repeat', dict(has_mi=True, nrev=1, share_tree=True, backend=0)), ('two_releases', dict(b1=1, b2=0, backend=0)),
            ('hash_seed', dict(rot=0, rev=False, nimp=3, backend=0)), ('results_stable', dict(na=2, nb=1, has_mc=True, backend=0)),
            ('results_stable', dict(na=1, nb=2, has_mc=False, backend=1))]
