"""C20 (kernel level): the command-line tools report and leave behind exactly what happened (engine FRAG + XH).

scripts/mibdump.py and scripts/mibcopy.py are top-level scripts; the statements that carry the property are cut out of
the script's AST by structure, compiled and executed in a namespace of stubs:
  * mibdump: the result-reporting tail (the `else:` of the try around compile()) with symbolic module statuses; the
    option loop with a symbolic option; the getopt block and the "no MIB names" / "unknown format" exits.
  * mibcopy: the copy loop with getMibRevision / shutil.copy / os.walk stubbed - symbolic visiting order, UNBOUNDED
    symbolic revisions, symbolic initial destination.
If a fragment cannot be located the condition fails its self-test (harness error), it is never reported as held.
"""
import ast
import itertools
import os

from pysmi import error
from pysmi.compiler import MibStatus

REPO = os.environ.get('VERIF_REPO', '/repo')
PERMS3 = list(itertools.permutations(range(3)))


def pick(table, k):
    for i in range(len(table)):
        if k == i:
            return table[i]
    return table[0]


def _module(path):
    with open(os.path.join(REPO, path)) as f:
        return ast.parse(f.read())


def _compile(nodes, name):
    mod = ast.Module(body=list(nodes), type_ignores=[])
    ast.fix_missing_locations(mod)
    return compile(mod, name, 'exec')


class _Exit(Exception):
    def __init__(self, code):
        self.code = code


class _Sys(object):
    platform = 'linux'
    version = '3'

    def __init__(self, argv=None):
        self.argv = argv or ['prog']
        self.out = []
        self.stderr = self
        self.stdout = self

    def write(self, s):
        self.out.append(s)

    def exit(self, code=0):
        raise _Exit(code)

    def exc_info(self):
        import sys
        return sys.exc_info()


_FRAG = {}


def frag(key):
    if key in _FRAG:
        return _FRAG[key]
    if key == 'dump-tail':
        tree = _module('scripts/mibdump.py')
        found = None
        for node in tree.body:
            if isinstance(node, ast.Try) and node.orelse:
                for sub in ast.walk(ast.Module(body=node.orelse, type_ignores=[])):
                    if isinstance(sub, ast.Assign) and any(isinstance(t, ast.Name) and t.id == 'exitCode' for t in sub.targets):
                        found = node.orelse
        if found is None:
            raise LookupError('mibdump: else-branch assigning exitCode not found')
        _FRAG[key] = _compile(found, 'mibdump-tail')
    elif key == 'dump-consts':
        tree = _module('scripts/mibdump.py')
        nodes = [n for n in tree.body if isinstance(n, ast.Assign) and all(isinstance(t, ast.Name) for t in n.targets)
                 and isinstance(n.value, (ast.Constant, ast.List, ast.Name, ast.UnaryOp))]
        _FRAG[key] = _compile(nodes, 'mibdump-consts')
    elif key == 'dump-optloop':
        tree = _module('scripts/mibdump.py')
        loops = [n for n in tree.body if isinstance(n, ast.For) and isinstance(n.iter, ast.Name) and n.iter.id == 'opts']
        if len(loops) != 1:
            raise LookupError('mibdump: option loop not found')
        _FRAG[key] = _compile(loops, 'mibdump-optloop')
    elif key == 'dump-getopt':
        tree = _module('scripts/mibdump.py')
        tries = [n for n in tree.body if isinstance(n, ast.Try) and any(
            isinstance(s, ast.Call) and isinstance(s.func, ast.Attribute) and s.func.attr == 'getopt' for s in ast.walk(n))]
        if len(tries) != 1:
            raise LookupError('mibdump: getopt block not found')
        _FRAG[key] = _compile(tries, 'mibdump-getopt')
    elif key == 'dump-nomibs':
        tree = _module('scripts/mibdump.py')
        ifs = [n for n in tree.body if isinstance(n, ast.If) and isinstance(n.test, ast.UnaryOp) and isinstance(n.test.op, ast.Not)
               and isinstance(n.test.operand, ast.Name) and n.test.operand.id == 'inputMibs']
        if len(ifs) != 1:
            raise LookupError('mibdump: `if not inputMibs` not found')
        _FRAG[key] = _compile(ifs, 'mibdump-nomibs')
    elif key == 'copy-loop':
        tree = _module('scripts/mibcopy.py')
        loops = [n for n in tree.body if isinstance(n, ast.For) and isinstance(n.iter, ast.Name) and n.iter.id == 'inputMibs']
        short = [n for n in tree.body if isinstance(n, ast.FunctionDef) and n.name == 'shortenPath']
        if len(loops) != 1 or len(short) != 1:
            raise LookupError('mibcopy: copy loop / shortenPath not found')
        _FRAG[key] = _compile(short + loops, 'mibcopy-loop')
    else:
        raise KeyError(key)
    return _FRAG[key]


STATUSES = ['compiled', 'untouched', 'failed', 'unprocessed', 'missing', 'borrowed']
LINE_OF = {'compiled': 'reated/updated MIBs:', 'borrowed': 'Pre-compiled MIBs', 'untouched': 'Up to date MIBs:',
           'missing': 'Missing source MIBs:', 'unprocessed': 'Ignored MIBs:', 'failed': 'Failed MIBs:'}


def _status(i, name):
    st = MibStatus(STATUSES[i])
    return st.setOptions(alias=name, path='file:///src/' + name, file=name + '.mib', error=error.PySmiError('boom'))


def dump_tail(n: int, s0: int, s1: int, s2: int, verbose: bool, dry: bool) -> bool:
    """
    requires: 0 <= n <= 3 and 0 <= s0 < 6 and 0 <= s1 < 6 and 0 <= s2 < 6
    """
    names = ['A-MIB', 'B-MIB', 'C-MIB'][:n]
    sts = [s0, s1, s2][:n]
    processed = dict((nm, _status(s, nm)) for nm, s in zip(names, sts))
    ns = {}
    exec(frag('dump-consts'), ns)
    sysm = _Sys()
    ns.update(processed=processed, verboseFlag=verbose, dryrunFlag=dry, sys=sysm)
    try:
        exec(frag('dump-tail'), ns)
        code = 'no-exit'
    except _Exit as e:
        code = e.code
    except Exception:
        return False
    bad = any(STATUSES[s] in ('missing', 'failed') for s in sts)
    if (code == 0) != (not bad) or code == 'no-exit':
        return False
    if bad and code in (0, 64):
        return False
    if verbose:
        text = ''.join(sysm.out)
        lines = text.split('\r\n')
        for nm, s in zip(names, sts):
            want = LINE_OF[STATUSES[s]]
            hits = [l for l in lines if nm in l]
            if len(hits) != 1 or want not in hits[0]:
                return False
    else:
        if sysm.out:
            return False
    return True


OPTS = [('--quiet', ''), ('--mib-source', 'file:///x'), ('--mib-searcher', 'pkg'), ('--mib-stub', 'S-MIB'), ('--mib-borrower', 'file:///b'),
        ('--destination-format', 'json'), ('--destination-template', 't.j2'), ('--destination-directory', '/d'), ('--cache-directory', '/c'),
        ('--no-dependencies', ''), ('--no-python-compile', ''), ('--python-optimization-level', '2'), ('--python-optimization-level', 'x'),
        ('--ignore-errors', ''), ('--build-index', ''), ('--rebuild', ''), ('--dry-run', ''), ('--no-mib-writes', ''),
        ('--generate-mib-texts', ''), ('--disable-fuzzy-source', ''), ('--keep-texts-layout', ''), ('--help', ''), ('-h', ''), ('--version', ''), ('-v', '')]
EFFECT = {'--quiet': ('verboseFlag', False), '--mib-source': ('mibSources', ['file:///x']), '--mib-searcher': ('mibSearchers', ['pkg']),
          '--mib-stub': ('mibStubs', ['S-MIB']), '--destination-format': ('dstFormat', 'json'), '--destination-template': ('dstTemplate', 't.j2'),
          '--destination-directory': ('dstDirectory', '/d'), '--cache-directory': ('cacheDirectory', '/c'), '--no-dependencies': ('nodepsFlag', True),
          '--no-python-compile': ('pyCompileFlag', False), '--ignore-errors': ('ignoreErrorsFlag', True), '--build-index': ('buildIndexFlag', True),
          '--rebuild': ('rebuildFlag', True), '--dry-run': ('dryrunFlag', True), '--no-mib-writes': ('writeMibsFlag', False),
          '--generate-mib-texts': ('genMibTextsFlag', True), '--disable-fuzzy-source': ('doFuzzyMatchingFlag', False),
          '--keep-texts-layout': ('keepTextsLayout', True)}


def dump_option(oi: int, oj: int, two: bool) -> bool:
    """
    requires: 0 <= oi < len(OPTS) and 0 <= oj < len(OPTS)
    """
    ns = {}
    exec(frag('dump-consts'), ns)
    base = dict((k, (list(v) if isinstance(v, list) else v)) for k, v in ns.items() if not k.startswith('__'))
    sysm = _Sys()
    from pysmi import debug
    ns.update(sys=sysm, debug=debug, helpMessage='HELP')
    opts = [pick(OPTS, oi)] + ([pick(OPTS, oj)] if two else [])
    ns['opts'] = opts
    try:
        exec(frag('dump-optloop'), ns)
        code = None
    except _Exit as e:
        code = e.code
    except Exception:
        return False
    # expected: walk the options in order
    exp = dict(base)
    exp_code = None
    for name, val in opts:
        if name in ('--help', '-h', '--version', '-v'):
            exp_code = 0
            break
        if name == '--python-optimization-level':
            if val == 'x':
                exp_code = 64                      # usage error
                break
            exp['pyOptimizationLevel'] = 2
        elif name == '--mib-borrower':
            exp['mibBorrowers'] = list(exp.get('mibBorrowers', [])) + [(val, exp['genMibTextsFlag'])]
        else:
            var, v = EFFECT[name]
            if isinstance(v, list):
                exp[var] = list(exp.get(var, [])) + v
            else:
                exp[var] = v
    if code != exp_code:
        return False
    if exp_code is not None:
        return True
    for k, v in exp.items():
        if ns.get(k) != v:
            return False
    return True


ARGVS = [['prog', 'IF-MIB'], ['prog', '--bogus', 'IF-MIB'], ['prog', '--rebuild', 'IF-MIB'], ['prog', '--debug'], ['prog', '-x'],
         ['prog', '--destination-format'], ['prog']]


def dump_usage(ai: int, verbose: bool) -> bool:
    """
    requires: 0 <= ai < len(ARGVS)
    """
    import getopt
    argv = pick(ARGVS, ai)
    ns = {}
    exec(frag('dump-consts'), ns)
    sysm = _Sys(argv)
    ns.update(sys=sysm, getopt=getopt, helpMessage='HELP', verboseFlag=verbose)
    try:
        exec(frag('dump-getopt'), ns)
        exec(frag('dump-nomibs'), ns)
        code = None
    except _Exit as e:
        code = e.code
    except Exception:
        return False
    bad = ai in (1, 3, 4, 5, 6)         # unknown option, option lacking its argument, no MIB names
    return code == (64 if bad else None)


def copy_loop(nvis: int, order: int, n0: int, n1: int, n2: int, r0: int, r1: int, r2: int, f0: bool, f1: bool, f2: bool,
              has0: bool, has1: bool, d0: int, d1: int, quiet: bool) -> bool:
    """
    requires: 1 <= nvis <= 3 and 0 <= order < 6 and 0 <= n0 <= 1 and 0 <= n1 <= 1 and 0 <= n2 <= 1
    requires: 1 <= r0 and 1 <= r1 and 1 <= r2 and 1 <= d0 and 1 <= d1
    """
    names = ['ALPHA-MIB', 'BETA-MIB']
    files = [('f0.txt', names[n0], r0, f0), ('f1.mib', names[n1], r1, f1), ('f2', names[n2], r2, f2)]
    visits = [files[i] for i in pick(PERMS3, order) if i < nvis]
    dst = {}
    if has0:
        dst[names[0]] = d0
    if has1:
        dst[names[1]] = d1
    initial = dict(dst)
    byfile = dict((f[0], f) for f in files)

    class _OsPath(object):
        def isfile(self, p):
            return False

        def abspath(self, p):
            return p

        def join(self, a, b):
            return a + '/' + b

        def dirname(self, p):
            return p[:p.rfind('/')]

        def basename(self, p):
            return p[p.rfind('/') + 1:]

    class _Os(object):
        path = _OsPath()

        def walk(self, d):
            yield d, [], [v[0] for v in visits]

    def getMibRevision(mibDir, mibFile):
        if mibDir == 'DST':
            if mibFile in dst:
                return mibFile, dst[mibFile]
            raise error.PySmiError('not there')
        f = byfile[mibFile]
        if f[3]:
            raise error.PySmiError('unreadable')
        return f[1], f[2]

    copies = []

    class _Shutil(object):
        def copy(self, src, dstpath):
            fname = src[src.rfind('/') + 1:]
            target = dstpath[dstpath.rfind('/') + 1:]
            copies.append((fname, target))
            dst[target] = byfile[fname][2]

    class _DT(object):
        @staticmethod
        def fromtimestamp(t):
            return 0

    sysm = _Sys()
    # (a dict literal: CrossHair turns dict(...) with symbolic values into a proxy map that exec() refuses as globals)
    ns = {'inputMibs': ['SRC'], 'dstDirectory': 'DST', 'os': _Os(), 'getMibRevision': getMibRevision, 'shutil': _Shutil(),
          'datetime': _DT, 'sys': sysm, 'error': error, 'verboseFlag': False, 'quietFlag': quiet, 'mibsSeen': 0, 'mibsCopied': 0,
          'mibsFailed': 0, 'mibsRevisions': {}}
    try:
        exec(frag('copy-loop'), ns)
    except Exception:
        return False
    # every module name seen ends up with the LATEST revision among the destination's own copy and all readable sources
    for nm in names:
        revs = [v[2] for v in visits if v[1] == nm and not v[3]]
        if not revs:
            if dst.get(nm) != initial.get(nm):
                return False
            continue
        best = initial.get(nm, 0)
        for r in revs:
            if r > best:
                best = r
        if dst.get(nm) != best:
            return False
    # stored under the canonical module name, never under the file's own name
    for fname, target in copies:
        if target != byfile[fname][1]:
            return False
    return ns['mibsSeen'] == len(visits) and ns['mibsFailed'] == len([v for v in visits if v[3]]) and ns['mibsCopied'] == len(copies)


def conditions(prop, tier):
    q = tier == 'quick'
    t = 280 if q else 1500
    out = [dict(name='C20.mibdump.report-and-exit-code', fn='dump_tail', fixed={}, timeout=t,
                bounds='0..3 modules with symbolic status among the six; verbose / dry-run symbolic'),
           dict(name='C20.mibdump.options', fn='dump_option', fixed={}, timeout=t, extra_pre=['oj <= 12'] if q else [],
                bounds='one or two options picked by symbolic index from the %d accepted option spellings (incl. a malformed optimisation level)' % len(OPTS)),
           dict(name='C20.mibdump.usage-errors', fn='dump_usage', fixed={}, timeout=t, bounds='%d command lines through the real getopt block and the "no MIB names" check' % len(ARGVS))]
    for nv in (1, 2, 3):
        out.append(dict(name='C20.mibcopy.loop.v%d' % nv, fn='copy_loop', fixed=dict(nvis=nv), timeout=t,
                        extra_pre=['order < 2 and not f2'] if (q and nv == 3) else [],
                        bounds='%d source file(s) visited in symbolic order, each declaring one of 2 module names with an UNBOUNDED symbolic revision or '
                               'being unreadable; destination initially holding any subset with unbounded revisions' % nv))
    return out


def selftests(prop):
    return [('dump_tail', dict(n=3, s0=0, s1=2, s2=4, verbose=True, dry=False)), ('dump_tail', dict(n=1, s0=1, s1=0, s2=0, verbose=False, dry=True)),
            ('dump_option', dict(oi=4, oj=18, two=True)), ('dump_option', dict(oi=12, oj=0, two=False)),
            ('dump_usage', dict(ai=1, verbose=False)), ('dump_usage', dict(ai=2, verbose=True)),
            ('copy_loop', dict(nvis=3, order=3, n0=0, n1=0, n2=1, r0=5, r1=9, r2=2, f0=False, f1=False, f2=True, has0=True, has1=False, d0=7, d1=1, quiet=False))]
