"""C15: descriptive texts reach the output intact and only when requested.

JSON side (TOK + XH): one text-bearing clause per condition carries ONE symbolic quoted string (content over all
characters except the double quote); genTexts and the text filter are symbolic.
Real code: p_Text/p_descriptionClause/p_ReferPart/p_UnitsPart/p_DisplayPart/p_Revision..., IntermediateCodeGen
(genDescription/genReference/genOrganization/genContactInfo/genUnits/genDisplayHint/genProductRelease/genRevisions and
the `if self.genRules['text']` gates of every clause handler), the default text filter re.sub(r'\\s+', ' ', text).

pysnmp side (RX, partial): paste sites of texts in the pysnmp template are classified from the Jinja AST and the
language of MIB texts (from the real QUOTED_STRING rule) is compared with the safe language of each site kind by z3's
regex theory; counterexamples are replayed by rendering, compiling and executing the generated module.
"""
from harness import tok, smimodel as m
from harness.tok import seq, QS
from pysmi import error

CLAUSES = ['ot-description', 'ot-reference', 'ot-units', 'mi-organization', 'mi-contact', 'mi-description',
           'mi-revision-description', 'tc-displayhint', 'tc-description', 'ac-productrelease', 'nt-description',
           'oi-reference', 'og-description', 'mc-description', 'tc-reference']
GATED = {'ot-description', 'ot-reference', 'mi-organization', 'mi-contact', 'mi-description', 'tc-description',
         'nt-description', 'oi-reference', 'og-description', 'mc-description', 'tc-reference'}
FILTERED = {'ot-units', 'mi-revision-description'} | GATED      # pass through the text filter
KEY = {'ot-description': ('x', 'description'), 'ot-reference': ('x', 'reference'), 'ot-units': ('x', 'units'),
       'mi-organization': ('x', 'organization'), 'mi-contact': ('x', 'contactinfo'), 'mi-description': ('x', 'description'),
       'tc-displayhint': ('X', 'displayhint'), 'tc-description': ('X', 'description'), 'tc-reference': ('X', 'reference'),
       'ac-productrelease': ('x', 'productrelease'), 'nt-description': ('x', 'description'), 'oi-reference': ('x', 'reference'),
       'og-description': ('x', 'description'), 'mc-description': ('x', 'description')}


def pick(table, k):
    for i in range(len(table)):
        if k == i:
            return table[i]
    return table[0]


def quoted(v):
    if len(v) < 2 or v[0] != '"' or v[len(v) - 1] != '"':
        return False
    for c in v[1:len(v) - 1]:
        if c == '"':
            return False
    return True


def normalise(t):
    """reference model of the default text filter: every maximal run of white space becomes one blank"""
    out = ''
    in_ws = False
    for c in t:
        if c.isspace():
            if not in_ws:
                out += ' '
            in_ws = True
        else:
            out += c
            in_ws = False
    return out


def _decl(clause, q):
    o = m.oid('iso', 3)
    if clause == 'ot-description':
        return m.object_type('x', seq('Integer32'), o, descr=q)
    if clause == 'ot-reference':
        return m.object_type('x', seq('Integer32'), o, descr=m.text('d'), ref=q)
    if clause == 'ot-units':
        return m.object_type('x', seq('Integer32'), o, descr=m.text('d'), units=q)
    if clause == 'mi-organization':
        return m.module_identity('x', o, org=q)
    if clause == 'mi-contact':
        return m.module_identity('x', o, contact=q)
    if clause == 'mi-description':
        return m.module_identity('x', o, descr=q)
    if clause == 'mi-revision-description':
        return m.module_identity('x', o, revisions=[('"200001010000Z"', q)])
    if clause == 'tc-displayhint':
        return m.textual_convention('X', seq('OCTET STRING'), display=q)
    if clause == 'tc-description':
        return m.textual_convention('X', seq('OCTET STRING'), descr=q)
    if clause == 'tc-reference':
        return m.textual_convention('X', seq('OCTET STRING'), ref=q)
    if clause == 'ac-productrelease':
        return m.agent_capabilities('x', o, release=q)
    if clause == 'nt-description':
        return m.notification_type('x', o, descr=q)
    if clause == 'oi-reference':
        return m.object_identity('x', o, ref=q)
    if clause == 'og-description':
        return m.object_group('x', o, ['o1'], descr=q)
    if clause == 'mc-description':
        return m.module_compliance('x', o, descr=q)
    raise ValueError(clause)


def text_clause(ci: int, v: str, genTexts: bool, identity: bool) -> bool:
    """
    requires: 0 <= ci < len(CLAUSES) and len(v) <= 8 and quoted(v)
    """
    clause = pick(CLAUSES, ci)
    src = v[1:len(v) - 1]
    d = _decl(clause, QS(v))
    try:
        trees = tok.parse_tokens(m.module('M', [], [d]))
        res = tok.compile_trees(trees, backend='json', genTexts=genTexts,
                                textFilter=(lambda kind, text: text) if identity else None)
    except error.PySmiError:
        return False
    ctx = res.ctx['M']
    if clause == 'mi-revision-description':
        got = ctx['x']['revisions'][0]['description']
        present = True
    else:
        sym, key = KEY[clause]
        present = key in ctx[sym]
        got = ctx[sym].get(key)
    if clause in GATED:
        if not genTexts:
            return not present              # never emitted unless requested
        if not present:
            return src == '' or (not identity and normalise(src) == '')    # an empty text may be left out
    else:
        if not present:
            return src == ''
    if identity:
        return got == src
    if clause in FILTERED:
        return got == normalise(src)
    return got == src or got == normalise(src)


def filter_history(ci: int, first_identity: bool, first_texts: bool, genTexts: bool, backend: int) -> bool:
    """
    requires: 0 <= ci < len(CLAUSES) and 0 <= backend <= 1
    """
    # ONE code generator: a first call with its own textFilter / genTexts, then a call with the defaults. The second
    # document must be the one a fresh generator produces ("exactly when layout is kept, whitespace-normalised otherwise"
    # is a per-call matter)
    from pysmi.codegen import jsondoc as _jd, pysnmp as _ps
    tok.install_jinja_capture()
    clause = pick(CLAUSES, ci)
    d = _decl(clause, QS('"a  b\n c"'))
    cls = (_jd.JsonCodeGen, _ps.PySnmpCodeGen)[backend]
    try:
        trees = tok.parse_tokens(m.module('M', [], [d]))
        st = tok.compile_trees(trees, backend=None).symtab
        g = cls()
        kw = dict(genTexts=first_texts)
        if first_identity:
            kw['textFilter'] = lambda kind, text: text
        g.genCode(trees[0], st, **kw)
        mi1, again = g.genCode(trees[0], st, genTexts=genTexts)
        mi2, fresh = cls().genCode(trees[0], st, genTexts=genTexts)
    except error.PySmiError:
        return False
    return again == fresh


def conditions(prop, tier):
    q = tier == 'quick'
    t = 280 if q else 1500
    n = 6 if q else 8
    out = []
    for ci, c in enumerate(CLAUSES):
        out.append(dict(name='C15.json.%s' % c, fn='text_clause', fixed=dict(ci=ci), extra_pre=['len(v) <= %d' % n], timeout=t,
                        bounds='clause %s with ONE symbolic quoted string (len<=%d incl. the quotes, any character but "), genTexts and '
                               'filter (identity | default) symbolic' % (c, n)))
    for be in (0, 1):
        out.append(dict(name='C15.filter-history.%s' % ('pysnmp' if be else 'json'), fn='filter_history', fixed=dict(backend=be), timeout=t,
                        bounds='one code generator, two calls: the first with an identity / default text filter and texts on / off, the second with '
                               'the defaults, for every text-bearing clause: the second document equals a fresh generator\'s'))
    return out


def selftests(prop):
    return [('text_clause', dict(ci=0, v='"a  b"', genTexts=True, identity=False)),
            ('text_clause', dict(ci=2, v='"\\n"', genTexts=False, identity=True)),
            ('text_clause', dict(ci=6, v='"r\\t"', genTexts=False, identity=False)),
            ('text_clause', dict(ci=7, v='"255a"', genTexts=False, identity=False))]


# ---- pysnmp side: paste-site safety (RX) ------------------------------------------------------------------------

SITE_GETTER = {'description': 'getDescription', 'reference': 'getReference', 'units': 'getUnits'}


def _sites(repo):
    """classify every `{{ definition['<key>'] ... }}` output of a text in the pysnmp template by what precedes it"""
    import os
    import re
    src = open(os.path.join(repo, 'pysmi/codegen/templates/pysnmp/mib-definitions.j2')).read()
    keys = ('description', 'reference', 'units', 'displayhint', 'organization', 'contactinfo', 'productrelease')
    sites = []
    for mm in re.finditer(r"\{\{\s*definition\['(\w+)'\]\s*((?:\|\s*\w+\s*(?:\([^)]*\))?\s*)*)\}\}", src):
        key = mm.group(1)
        if key not in keys:
            continue
        filters = [f.strip() for f in mm.group(2).split('|') if f.strip()]
        before = src[max(0, mm.start() - 8):mm.start()]
        after = src[mm.end():mm.end() + 5]
        if before.endswith('"""\\\n') and after.startswith('\n"""'):
            kind = 'block'
        elif before.endswith('"') and not before.endswith('""') and after.startswith('"'):
            kind = 'oneline'
        else:
            kind = 'unknown'
        sites.append(dict(key=key, filters=filters, kind=kind, line=src.count('\n', 0, mm.start()) + 1))
    return sites


def replay_text(key, text, keep_layout):
    """does the text survive (up to white space) in the executed pysnmp module? True = yes"""
    from harness import realpipe
    clause = {'description': 'DESCRIPTION "%s"', 'reference': 'DESCRIPTION "d" REFERENCE "%s"', 'units': 'UNITS "%s"'}[key]
    units = clause % text if key == 'units' else ''
    rest = clause % text if key != 'units' else 'DESCRIPTION "d"'
    mib = ('T-MIB DEFINITIONS ::= BEGIN\nIMPORTS OBJECT-TYPE FROM SNMPv2-SMI;\n'
           'x OBJECT-TYPE SYNTAX Integer32 %s MAX-ACCESS read-only STATUS current %s ::= { 1 3 }\nEND\n' % (units, rest))
    try:
        code = realpipe.generate([mib], genTexts=True, textFilter=(lambda k, t: t) if keep_layout else None)['T-MIB']
        ns = realpipe.execute(code)
        got = getattr(ns['x'], SITE_GETTER[key])()
    except Exception:
        return False
    return ''.join(got.split()) == ''.join(text.split())


def solver_obligations(prop, tier, ctx):
    import re
    import z3
    from engine import smt
    from pysmi.lexer.smi import SmiV2Lexer
    out = []
    pat = smt.rule_pattern(SmiV2Lexer, 't_QUOTED_STRING')
    S = z3.StringSort()
    any_ = z3.AllChar(z3.ReSort(S))
    try:
        Lq = smt.re_to_z3(pat, re.DOTALL)
    except smt.Untranslatable as e:
        return [dict(cond='C15.pysnmp.paste-sites', status='inconclusive', verdict='UNTRANSLATABLE', paths=0,
                     reason='QUOTED_STRING rule %r: %s' % (pat, e))]
    t = z3.String('t')
    q = z3.StringVal('"')
    in_lang = z3.InRe(z3.Concat(q, t, q), Lq)            # t is the content of a quoted string the real lexer accepts

    def none_of(chars):
        u = z3.Union(*[z3.Re(z3.StringVal(c)) for c in chars]) if len(chars) > 1 else z3.Re(z3.StringVal(chars[0]))
        return z3.Star(z3.Intersect(any_, z3.Complement(u)))
    everything = z3.Star(any_)

    def safe_language(kind, filters):
        """texts the paste site reproduces: the `pystr` filter escapes backslashes (and, as pystr(True), line breaks)"""
        esc = [f for f in filters if f.startswith('pystr')]
        if esc and kind == 'block':
            return everything
        if esc and kind == 'oneline':
            return everything if 'True' in esc[0] else none_of(['\n', '\r'])
        return {'oneline': none_of(['\\', '\n', '\r']), 'block': none_of(['\\'])}[kind]
    sites = _sites(ctx['repo'])
    # only keys with an executed-replay driver are claimed (OBJECT-TYPE description/reference/units);
    # organization/contactinfo/displayhint/productrelease sites are listed as outside the claim
    kinds = sorted(set((s['kind'], s['key'], tuple(s['filters'])) for s in sites if s['key'] in SITE_GETTER))
    known = set()
    import json as _json, os
    try:
        kf = _json.load(open(os.path.join(ctx['verif'], 'known_findings.json')))['findings']
        for f in kf:
            if f.get('id') == 'KF-pysnmp-text-backslash' and f.get('status') == 'open':
                known.add('backslash')
    except Exception:
        pass
    for kind, key, filters in kinds:
        name = 'C15.pysnmp.site.%s.%s' % (kind, key)
        rec = dict(cond=name, fn='templates/pysnmp/mib-definitions.j2 + t_QUOTED_STRING', paths=0, queries=0,
                   bounds='unbounded: every text the QUOTED_STRING rule accepts vs the safe language of a %s paste site' % kind)
        if kind == 'unknown':
            rec.update(status='inconclusive', verdict='UNKNOWN-SITE', reason='paste site of %s not recognised' % key)
            out.append(rec)
            continue
        # 1. texts containing no backslash (and, for one-liners, no line break) are safe: nothing else is special
        #    inside "..." / """...""" given that the text cannot contain a double quote  -> language inclusion
        v1, m1, dt1, _ = smt.check([in_lang, z3.Contains(t, q)])
        # 2. is there a text outside the safe language at all?
        v2, m2, dt2, _ = smt.check([in_lang, z3.Not(z3.InRe(t, safe_language(kind, filters))), z3.Length(t) <= 3])
        rec.update(queries=2, solver_cpu_s=round(dt1 + dt2, 3), verdict='%s/%s' % (v1, v2))
        if v1 != 'unsat':
            rec.update(status='inconclusive', reason='cannot show that accepted texts never contain a double quote (%s)' % v1)
        elif v2 == 'unsat':
            rec.update(status='held', confirmed_paths=1)
        elif v2 == 'sat':
            w = m2[t].as_string()
            w = w.encode('ascii', 'ignore').decode() if w.isascii() else w
            w = _unescape_z3(w)
            if key not in SITE_GETTER:
                rec.update(status='inconclusive', reason='witness %r for key %s has no replay driver' % (w, key))
            elif replay_text(key, w, False):
                rec.update(status='inconclusive', reason='witness %r outside the safe language survives execution' % w)
            elif 'backslash' in known and '\\' in w:
                rec.update(status='known', known_id='KF-pysnmp-text-backslash',
                           message="text %r in %s is altered or breaks the generated pysnmp module (%s paste site)" % (w, key.upper(), kind))
            else:
                rel = 'replays/C15-pysnmp-%s-%s.py' % (kind, key)
                os.makedirs(os.path.join(ctx['verif'], 'replays'), exist_ok=True)
                with open(os.path.join(ctx['verif'], rel), 'w') as f:
                    f.write('import os, sys\nsys.path.insert(0, os.environ.get("VERIF_REPO", "/repo"))\n'
                            'sys.path.insert(0, os.path.dirname(os.path.dirname(os.path.abspath(__file__))))\n'
                            'from harness.c15_texts import replay_text\nsys.exit(0 if replay_text(%r, %r, False) else 1)\n' % (key, w))
                rec.update(status='violation', counterexample=dict(key=key, text=w), replay=rel,
                           message='text %r in %s does not survive the %s paste site' % (w, key, kind))
        else:
            rec.update(status='inconclusive', reason='z3: %s' % v2)
        out.append(rec)
    return out


def _unescape_z3(s):
    import re
    return re.sub(r'\\u\{([0-9a-fA-F]+)\}', lambda mm: chr(int(mm.group(1), 16)), s)
