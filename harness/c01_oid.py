"""C01: every symbol gets the OID the text defines (TOK + XH).

Real code executed symbolically: (K1: parser + symbol table + genNumericOid only - the intermediate generator renders OIDs to strings, which is
K2's subject) the LR driver with p_objectIdentifier/p_subidentifier(s)/p_valueDeclaration and the
clause actions, SymtableCodeGen.genCode/genOid/regSym/genImports/genTrapType, IntermediateCodeGen.genNumericOid/
genOid/regSym/genCode/genTrapType, JsonCodeGen.genCode and PySnmpCodeGen.genCode up to the (captured) render call.

K1 conditions: arcs are UNBOUNDED symbolic ints (0..2^32-1, the NUMBER token class); the resolved OID is compared as
an int tuple (genNumericOid on the symbol table). K2 conditions: arcs are picked by symbolic index from the boundary set
BSET, so that the rendered dotted strings / tuples in the JSON context, MibInfo and the pysnmp context are compared too.
"""
import itertools

from harness import tok, smimodel as m
from pysmi import error

PERMS3 = list(itertools.permutations(range(3)))
PERMS4 = list(itertools.permutations(range(4)))
BSET = [0, 1, 10, 4294967295]
U32 = 4294967295


def pick(table, k):
    for i in range(len(table)):
        if k == i:
            return table[i]
    return table[0]


def arc_ok(*arcs):
    for a in arcs:
        if not (0 <= a <= U32):
            return False
    return True


def _root(r, a0):
    """root spellings -> (oid tokens, expected tuple)"""
    if r == 0:
        return m.oid('iso', a0), (1, a0)
    if r == 1:
        return m.oid(1, a0), (1, a0)
    return m.oid('iso', ('named', 'org', 3), a0), (1, 3, a0)


def _child(parent, sp, a, mid):
    """child spellings under a named parent: {p a} | {p x(mid) a}"""
    if sp == 0:
        return m.oid(parent, a), (a,)
    return m.oid(parent, ('named', 'sub', mid), a), (mid, a)


def _compile(mods, order=None, backend=None):
    trees = []
    for t in mods:
        trees.extend(tok.parse_tokens(t))
    return tok.compile_trees(trees, backend=backend, order=order)


def tree_order(p2: int, p3: int, perm: int, r: int, sp1: int, sp2: int, sp3: int,
               a0: int, a1: int, a2: int, a3: int, mid: int) -> bool:
    """
    requires: 0 <= p2 <= 1 and 0 <= p3 <= 2 and 0 <= perm < 24 and 0 <= r <= 2
    requires: 0 <= sp1 <= 1 and 0 <= sp2 <= 1 and 0 <= sp3 <= 1
    requires: arc_ok(a0, a1, a2, a3, mid)
    """
    names = ['n0', 'n1', 'n2', 'n3']
    parent = [None, 0, p2, p3]
    arcs = [a0, a1, a2, a3]
    sps = [0, sp1, sp2, sp3]
    decl = [None] * 4
    exp = [None] * 4
    o, e = _root(r, a0)
    decl[0] = m.value_decl('n0', o)
    exp[0] = e
    for i in range(1, 4):
        o, e = _child(names[parent[i]], sps[i], arcs[i], mid)
        decl[i] = m.value_decl(names[i], o)
        exp[i] = exp[parent[i]] + e
    order = pick(PERMS4, perm)
    toks = m.module('M', [], [decl[i] for i in order])
    try:
        res = _compile([toks])
    except error.PySmiError:
        return False            # a well-formed, resolvable module must compile in any declaration order
    for i in range(4):
        if tok.numeric_oid(res.symtab, 'M', names[i]) != exp[i]:
            return False
    return True


KINDS = m.OID_KINDS[:9]


def kinds(kp: int, kc: int, child_first: bool, a0: int, a1: int, a2: int) -> bool:
    """
    requires: 0 <= kp < 9 and 0 <= kc < 9 and arc_ok(a0, a1, a2)
    requires: not (kp == 4 and kc == 4)
    """
    # (two MODULE-IDENTITY clauses in one module are rejected by design)
    kindp = pick(KINDS, kp)
    kindc = pick(KINDS, kc)
    dp = m.oid_decl(kindp, 'par', m.oid('iso', a0, a1))
    dc = m.oid_decl(kindc, 'chi', m.oid('par', a2))
    toks = m.module('M', [], [dc, dp] if child_first else [dp, dc])
    try:
        res = _compile([toks])
    except error.PySmiError:
        return False
    if tok.numeric_oid(res.symtab, 'M', 'par') != (1, a0, a1):
        return False
    return tok.numeric_oid(res.symtab, 'M', 'chi') == (1, a0, a1, a2)


def modules(m1: bool, m2: bool, hy0: bool, hy1: bool, order: int, inner: bool,
            a0: int, a1: int, a2: int) -> bool:
    """
    requires: 0 <= order < 6 and arc_ok(a0, a1, a2)
    """
    # chain n0 <- n1 <- n2; n0 lives in MA, n1 in MA or MB (m1), n2 in MA, MB or MC (m1, m2): parents reached
    # through IMPORTS, hyphenated names, both declaration orders inside a module, every symbol-table build order
    n0 = 'n-0' if hy0 else 'n0'
    n1 = 'n-1' if hy1 else 'n1'
    mod_of = ['MA', 'MB' if m1 else 'MA', ('MC' if m1 else 'MB') if m2 else ('MB' if m1 else 'MA')]
    names = [n0, n1, 'n2']
    decls = {'MA': [], 'MB': [], 'MC': []}
    imps = {'MA': [], 'MB': [], 'MC': []}
    decls['MA'].append(m.value_decl(n0, m.oid('iso', a0)))
    decls[mod_of[1]].append(m.value_decl(n1, m.oid(n0, a1)))
    if mod_of[1] != 'MA':
        imps[mod_of[1]].append(('MA', [n0]))
    decls[mod_of[2]].append(m.value_decl('n2', m.oid(n1, a2)))
    if mod_of[2] != mod_of[1]:
        imps[mod_of[2]].append((mod_of[1], [n1]))
    used = [k for k in ('MA', 'MB', 'MC') if decls[k]]
    toks = []
    for k in used:
        d = decls[k]
        if inner:
            d = list(reversed(d))
        toks.append(m.module(k, imps[k], d))
    perm = pick(PERMS3, order)
    build = [i for i in perm if i < len(used)]
    try:
        res = _compile(toks, order=build)
    except error.PySmiError:
        return False
    exp = [(1, a0), (1, a0, a1), (1, a0, a1, a2)]
    for i in range(3):
        if tok.numeric_oid(res.symtab, mod_of[i], names[i].replace('-', '_')) != exp[i]:
            return False
    return True


def same_name(a0: int, a1: int, a2: int, a3: int, order: int, local_first: bool, backend: int) -> bool:
    """
    requires: 0 <= a0 < 4 and 0 <= a1 < 4 and 0 <= a2 < 4 and 0 <= a3 < 4 and 0 <= order < 6 and 0 <= backend <= 1
    """
    # identifiers are module-scoped: MA and MB each declare a node called `common` at different OIDs; MB reaches MA's
    # subtree through an imported symbol and its own `common` locally - neither resolution may leak into the other
    v0, v1, v2, v3 = pick(BSET, a0), pick(BSET, a1), pick(BSET, a2), pick(BSET, a3)
    ma = m.module('MA', [], [m.value_decl('common', m.oid('iso', 3, v0)), m.value_decl('viaA', m.oid('common', v1))])
    db = [m.value_decl('common', m.oid('iso', 4, v2)), m.value_decl('underA', m.oid('viaA', 7)), m.value_decl('underB', m.oid('common', v3))]
    if not local_first:
        db = [db[1], db[2], db[0]]
    mb = m.module('MB', [('MA', ['viaA'])], db)
    perm = pick(PERMS3, order)
    try:
        trees = tok.parse_tokens(ma) + tok.parse_tokens(mb)
        res = tok.compile_trees(trees, backend='pysnmp' if backend else 'json', order=[i for i in perm if i < 2])
    except error.PySmiError:
        return False
    exp = {('MA', 'common'): (1, 3, v0), ('MA', 'viaA'): (1, 3, v0, v1), ('MB', 'common'): (1, 4, v2),
           ('MB', 'underA'): (1, 3, v0, v1, 7), ('MB', 'underB'): (1, 4, v2, v3)}
    for (mod, name), want in exp.items():
        got = res.ctx[mod][name]['oid']
        if got != (want if backend else dotted(want)):
            return False
    # the per-module summaries are separate objects: the first module's summary is still its own after the second was generated
    for mod in ('MA', 'MB'):
        if set(res.info[mod].oids) != set(dotted(exp[k]) for k in exp if k[0] == mod):
            return False
    return True


def trap(number: int, a0: int, a1: int, ent_after: bool, upper: bool) -> bool:
    """
    requires: arc_ok(number, a0, a1)
    """
    tname = 'MyTrap' if upper else 'myTrap'
    dt = m.trap_type(tname, m.oid('ent'), number, dialect='smiV1')
    de = m.value_decl('ent', m.oid('iso', a0, a1))
    toks = m.module('M', [], [dt, de] if ent_after else [de, dt], dialect='smiV1')
    try:
        trees = tok.parse_tokens(toks, 'smiV1')
        res = tok.compile_trees(trees, backend=None)
    except error.PySmiError:
        return False
    return tok.numeric_oid(res.symtab, 'M', tname) == (1, a0, a1, 0, number)


def dotted(t):
    return '.'.join([str(x) for x in t])


def render(kc: int, i0: int, i1: int, i2: int, ent: bool, child_first: bool, backend: int) -> bool:
    """
    requires: 0 <= kc < 10 and 0 <= i0 < 4 and 0 <= i1 < 2 and 0 <= i2 < 4 and 0 <= backend <= 1
    """
    a0, a1, a2 = pick(BSET, i0), pick([0, U32], i1), pick(BSET, i2)
    kind = pick(m.OID_KINDS, kc)
    dialect = 'smiV1' if kind == 'trapType' else 'smiV2'
    if ent:
        root_t, root_e = m.oid(1, 3, 6, 1, 4, 1, a0), (1, 3, 6, 1, 4, 1, a0)
    else:
        root_t, root_e = m.oid('iso', a0), (1, a0)
    dp = m.value_decl('par', root_t)
    if kind == 'trapType':
        dc = m.trap_type('chi', m.oid('par'), a2, dialect='smiV1')
        exp_c = root_e + (0, a2)
    else:
        dc = m.oid_decl(kind, 'chi', m.oid('par', ('named', 'x', a1), a2))
        exp_c = root_e + (a1, a2)
    toks = m.module('M', [], [dc, dp] if child_first else [dp, dc], dialect=dialect)
    try:
        trees = tok.parse_tokens(toks, dialect)
        res = tok.compile_trees(trees, backend='pysnmp' if backend else 'json')
    except error.PySmiError:
        return False
    ctx, info = res.ctx['M'], res.info['M']
    want_p = root_e if backend else dotted(root_e)
    want_c = exp_c if backend else dotted(exp_c)
    if ctx['par']['oid'] != want_p or ctx['chi']['oid'] != want_c:
        return False
    if ctx['chi']['class'] != m.KIND_CLASS[kind] or ctx['par']['class'] != 'objectidentity':
        return False
    # per-module OID summary handed back to the caller
    if set(info.oids) != set([dotted(root_e), dotted(exp_c)]):
        return False
    if (info.identity == dotted(exp_c)) != (kind == 'moduleIdentity'):
        return False
    if list(info.compliance) != ([dotted(exp_c)] if kind == 'moduleCompliance' else []):
        return False
    if ent:
        if info.enterprise != dotted(root_e):
            return False
    else:
        if info.enterprise:
            return False
    return True


def table_order(perm: int, has_seq: bool, i0: int, i1: int, i2: int, backend: int) -> bool:
    """
    requires: 0 <= perm < 24 and 0 <= i0 < len(BSET) and 0 <= i1 < len(BSET) and 0 <= i2 < len(BSET) and 0 <= backend <= 1
    """
    # a conceptual table, its row, a column and the row's SEQUENCE type, declared in every order: the row is postponed on
    # its SEQUENCE type name, the column on the row, ... - all of it must compile and resolve whatever comes first
    from harness.tok import seq
    a0, a1, a2 = pick(BSET, i0), pick(BSET, i1), pick(BSET, i2)
    tbl = m.object_type('xTable', seq('SEQUENCE OF XEntry'), m.oid('iso', a0), access='not-accessible', descr=m.text('d'))
    row = m.object_type('xEntry', seq('XEntry'), m.oid('xTable', a1), access='not-accessible', descr=m.text('d'), index=[(False, 'c1')])
    col = m.object_type('c1', seq('Integer32'), m.oid('xEntry', a2), descr=m.text('d'))
    sq = m.sequence_type('XEntry', [('c1', 'Integer32')]) if has_seq else []
    parts = [tbl, row, col, sq]
    body = [parts[i] for i in pick(PERMS4, perm)]
    try:
        res = _compile([m.module('M', [], body)], backend='pysnmp' if backend else 'json')
    except error.PySmiError:
        return False
    ctx = res.ctx['M']
    exp = {'xTable': (1, a0), 'xEntry': (1, a0, a1), 'c1': (1, a0, a1, a2)}
    for name, oid in exp.items():
        got = ctx[name]['oid']
        if backend:
            if got != oid:
                return False
        elif got != '.'.join(str(x) for x in oid):
            return False
    return set(res.info['M'].oids) == set('.'.join(str(x) for x in o) for o in exp.values())


def conditions(prop, tier):
    q = tier == 'quick'
    t = 280 if q else 1500
    out = []
    for be in (0, 1):
        out.append(dict(name='C01.K2.table-order.%s' % ('pysnmp' if be else 'json'), fn='table_order', fixed=dict(backend=be), timeout=t,
                        extra_pre=['i1 == 1 and i2 <= 1'] if q else [],
                        bounds='table, row, column and the row\'s SEQUENCE type (present or not) in all 24 declaration orders; arcs from the boundary set'))
    for r, p3 in ((0, 0), (1, 1), (2, 2)) if q else [(r, p3) for r in (0, 1, 2) for p3 in (0, 1, 2)]:
        out.append(dict(name='C01.K1.tree-order.r%d-p%d' % (r, p3), fn='tree_order', fixed=dict(r=r, p3=p3), timeout=t,
                        bounds='4 nodes, all 6 tree shapes x all 24 declaration orders x child spelling {p a | p x(m) a} per '
                               'node; arcs unbounded in 0..2^32-1; root spelling and the parent of the 4th node fixed per shard (quick: 3 of the 9 shards)'))
    out.append(dict(name='C01.K1.kinds', fn='kinds', fixed={}, timeout=t,
                    bounds='parent kind x child kind over the 9 OID-bearing SMIv2 declaration kinds, both orders, arcs unbounded'))
    out.append(dict(name='C01.K1.modules', fn='modules', fixed={}, timeout=t,
                    bounds='chain of 3 nodes spread over 1..3 modules (IMPORTS chain), hyphenated names, both inner orders, all '
                           'symbol-table build orders; arcs unbounded'))
    out.append(dict(name='C01.K1.trap', fn='trap', fixed={}, timeout=t,
                    bounds='TRAP-TYPE under the smiV1 dialect: enterprise declared before/after, upper/lower-case trap name; '
                           'trap number and arcs unbounded'))
    for be in (0, 1):
        out.append(dict(name='C01.K2.same-name.%s' % ('pysnmp' if be else 'json'), fn='same_name', fixed=dict(backend=be), timeout=t,
                        extra_pre=['a0 < 2 and a1 < 2 and a2 < 2 and a3 < 2'] if q else [],
                        bounds='two modules that each declare a node of the SAME name at different OIDs, one subtree reached through an imported '
                               'symbol, the other locally; both declaration orders, all build orders, arcs from the boundary set'))
    for be in (0, 1):
        for cf in (False, True):
            out.append(dict(name='C01.K2.render.%s.cf%d' % ('pysnmp' if be else 'json', cf), fn='render',
                            fixed=dict(backend=be, child_first=cf), timeout=t,
                            bounds='child of each of the 10 OID-bearing kinds; arcs picked by symbolic index from %r; '
                                   'enterprise root or not; rendered OID in context, MibInfo.oids/identity/compliance/enterprise' % (BSET,)))
    return out


def selftests(prop):
    return [('table_order', dict(perm=9, has_seq=True, i0=1, i1=2, i2=3, backend=0)),
            ('table_order', dict(perm=23, has_seq=False, i0=0, i1=1, i2=1, backend=1)),
            ('tree_order', dict(p2=1, p3=0, perm=17, r=2, sp1=1, sp2=0, sp3=1, a0=3, a1=6, a2=0, a3=U32, mid=9)),
            ('kinds', dict(kp=0, kc=2, child_first=True, a0=3, a1=6, a2=1)),
            ('modules', dict(m1=True, m2=False, hy0=False, hy1=False, order=0, inner=False, a0=3, a1=6, a2=1)),
            ('same_name', dict(a0=1, a1=2, a2=3, a3=0, order=1, local_first=True, backend=0)),
            ('trap', dict(number=5, a0=3, a1=6, ent_after=False, upper=False)),
            ('render', dict(kc=0, i0=1, i1=1, i2=3, ent=True, child_first=False, backend=0)),
            ('render', dict(kc=6, i0=1, i1=0, i2=3, ent=False, child_first=False, backend=1))]
