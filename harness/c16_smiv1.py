"""C16: an SMIv1 module and its mechanical SMIv2 transliteration compile to the same objects (TOK + XH).

Real code: the smiV1 dialect parser (SupportSmiV1Keywords / SupportIndex overrides) and the smiV2 parser through the LR
driver, SymtableCodeGen/IntermediateCodeGen/PySnmpCodeGen (genImports with convertImportv2, genTrapType, genSimpleSyntax
with SMI_TYPES, typeClasses), the lexer's reserved-word table (Counter -> COUNTER32 ...).
"""
from harness import tok, smimodel as m
from harness.tok import seq, LC, UC
from pysmi.codegen.base import AbstractCodeGen
from pysmi.codegen import symtable as _symtable, intermediate as _intermediate, pysnmp as _pysnmp
from pysmi import error

# SMIv1 spelling -> SMIv2 spelling of the SYNTAX, and the class name expected in pysnmp output
TYPES = [('Counter', 'Counter32', 'Counter32'), ('Gauge', 'Gauge32', 'Gauge32'), ('NetworkAddress', 'IpAddress', 'IpAddress'),
         ('INTEGER', 'Integer32', 'Integer32'), ('TimeTicks', 'TimeTicks', 'TimeTicks'), ('IpAddress', 'IpAddress', 'IpAddress'),
         ('OCTET STRING', 'OCTET STRING', 'OctetString'), ('Opaque', 'Opaque', 'Opaque'),
         ('DisplayString', 'DisplayString', 'DisplayString')]
ACCESS = ['read-only', 'read-write', 'write-only', 'not-accessible']


def pick(table, k):
    for i in range(len(table)):
        if k == i:
            return table[i]
    return table[0]


def mini_smi():
    return m.module('SNMPv2-SMI', [], [
        m.value_decl('internet', m.oid('iso', 3, 6, 1)),
        m.value_decl('mgmt', m.oid('internet', 2)),
        m.value_decl('mib-2', m.oid('mgmt', 1)),
        m.value_decl('private', m.oid('internet', 4)),
        m.value_decl('enterprises', m.oid('private', 1)),
    ]) + []


def _v1_imports(types_used):
    syms = ['enterprises'] + [t for t in types_used if t in ('Counter', 'Gauge', 'NetworkAddress', 'TimeTicks', 'IpAddress', 'Opaque')]
    imps = [('RFC1155-SMI', syms), ('RFC-1212', ['OBJECT-TYPE']), ('RFC-1215', ['TRAP-TYPE'])]
    if 'DisplayString' in types_used:
        imps.append(('RFC1213-MIB', ['DisplayString']))
    return imps


def _v2_imports(types_used):
    syms = ['enterprises', 'OBJECT-TYPE', 'NOTIFICATION-TYPE'] + \
           [t for t in types_used if t in ('Counter32', 'Gauge32', 'TimeTicks', 'IpAddress', 'Opaque', 'Integer32')]
    imps = [('SNMPv2-SMI', syms)]
    if 'DisplayString' in types_used:
        imps.append(('SNMPv2-TC', ['DisplayString']))
    return imps


def _build(v1, ti, ai, nvars, trap_no, a1, hy, trap_first):
    t = pick(TYPES, ti)
    acc = pick(ACCESS, ai)
    oname = 'x-obj' if hy else 'xObj'
    dialect = 'smiV1' if v1 else 'smiV2'
    ent = m.value_decl('ent', m.oid('enterprises', a1))
    syn = seq(t[0] if v1 else t[1], dialect=dialect)
    obj = m.object_type(oname, syn, m.oid('ent', 1), access=acc, status='mandatory', descr=m.text('d'),
                        access_kw='ACCESS' if v1 else 'MAX-ACCESS', dialect=dialect)
    obj2 = m.object_type('yObj', seq('INTEGER' if v1 else 'Integer32', dialect=dialect), m.oid('ent', 2), access='read-only',
                         status='mandatory', descr=m.text('d'), access_kw='ACCESS' if v1 else 'MAX-ACCESS', dialect=dialect)
    vars_ = [oname, 'yObj'][:nvars]
    if v1:
        trap = m.trap_type('myTrap', m.oid('ent'), trap_no, variables=vars_ if nvars else None, descr=m.text('d'), dialect='smiV1')
        imps = _v1_imports([t[0]])
    else:
        trap = m.notification_type('myTrap', m.oid('ent', 0, trap_no), objects=vars_ if nvars else None, status='current')
        imps = _v2_imports([t[1]])
    body = [trap, ent, obj, obj2] if trap_first else [ent, obj, obj2, trap]
    return m.module('T-MIB', imps, body, dialect=dialect), dialect


def _ctx(v1, backend, *args):
    toks, dialect = _build(v1, *args)
    trees = tok.parse_tokens(toks, dialect)
    res = tok.compile_trees(trees, backend=backend, extra_symtab=tok.const_symtab('c16-smi', mini_smi))
    return res


def transliteration(ti: int, ai: int, nvars: int, trap_no: int, a1: int, hy: bool, trap_first: bool, backend: int) -> bool:
    """
    requires: 0 <= ti < len(TYPES) and 0 <= ai < 4 and 0 <= nvars <= 2 and 0 <= backend <= 1
    requires: 0 <= trap_no <= 3 and 0 <= a1 <= 2
    """
    be = 'pysnmp' if backend else 'json'
    args = (ti, ai, nvars, pick([0, 1, 7, 4294967295], trap_no), pick([0, 9, 4294967295], a1), hy, trap_first)
    try:
        r1 = _ctx(True, be, *args)
        r2 = _ctx(False, be, *args)
    except error.PySmiError:
        return False
    c1, c2 = r1.ctx['T-MIB'], r2.ctx['T-MIB']
    syms1 = set(k for k in c1 if k not in ('imports', 'meta'))
    syms2 = set(k for k in c2 if k not in ('imports', 'meta'))
    if syms1 != syms2:
        return False
    for s in syms1:
        a, b = c1[s], c2[s]
        for key in ('oid', 'class', 'nodetype', 'maxaccess', 'objects'):
            if a.get(key) != b.get(key):
                return False
    oname = 'x_obj' if hy else 'xObj'
    if c1[oname].get('maxaccess') != pick(ACCESS, ai):
        return False                        # ACCESS is reported as the maximum access
    if c1['myTrap']['class'] != 'notificationtype':
        return False
    if backend:
        # SMIv1 types map to their SMIv2 classes in pysnmp output
        if c1[oname]['syntax']['type'] != pick(TYPES, ti)[2] or c2[oname]['syntax']['type'] != pick(TYPES, ti)[2]:
            return False
        # symbols of the SMIv1 base modules are imported from their SMIv2 home
        imp = c1['imports']
        for old in ('RFC1155-SMI', 'RFC-1212', 'RFC-1215', 'RFC1213-MIB'):
            if imp.get(old):
                return False
        if 'enterprises' not in imp.get('SNMPv2-SMI', []):
            return False
    # per-module summary: same OIDs; base modules are not reported as dependencies to compile
    if set(r1.info['T-MIB'].oids) != set(r2.info['T-MIB'].oids):
        return False
    return True


def _flat():
    out = []
    for mod in sorted(AbstractCodeGen.convertImportv2):
        for sym in sorted(AbstractCodeGen.convertImportv2[mod]):
            out.append((mod, sym))
    return out


FLAT = _flat()


def import_rewrite(i: int, gen: int, extra: bool) -> bool:
    """
    requires: 0 <= i < len(FLAT) and 0 <= gen <= 2
    """
    mod, sym = pick(FLAT, i)
    targets = AbstractCodeGen.convertImportv2[mod][sym]
    imports = {mod: [sym]}
    if extra:
        # a symbol without an SMIv2 home stands before (odd i) or after (even i) the convertible one in the same FROM list
        if i % 2:
            imports[mod].insert(0, 'somethingElse')
        else:
            imports[mod].append('somethingElse')
        imports['OTHER-MIB'] = ['foo']
    g = (_symtable.SymtableCodeGen, _intermediate.IntermediateCodeGen, _pysnmp.PySnmpCodeGen)[gen]()
    out, mods = g.genImports(imports)
    imap = g._importMap
    for newmod, newsym in targets:
        names = _symtable.SymtableCodeGen.symsTable.get(newsym, (newsym,)) if gen == 0 else (newsym,)
        for nme in names:
            key = nme.replace('-', '_')
            if imap.get(key) != newmod:
                return False
        if newmod not in mods:
            return False
    if gen != 0:
        listed = out['imports']
        for newmod, newsym in targets:
            if newsym not in listed.get(newmod, []):
                return False
        if sym in listed.get(mod, []) and (mod, sym) not in targets:
            return False                    # still imported from the SMIv1 module
    if extra:
        if imap.get('somethingElse') != mod or imap.get('foo') != 'OTHER-MIB':
            return False                    # unrelated imports are left alone
    return True


def _reps():
    out = []
    for mod in sorted(AbstractCodeGen.convertImportv2):
        syms = sorted(AbstractCodeGen.convertImportv2[mod])
        out.append((mod, syms[0]))
        out.append((mod, syms[len(syms) // 2]))
    return out


REPS = _reps()


def import_rewrite_pair(i: int, j: int, gen: int, swap: bool) -> bool:
    """
    requires: 0 <= i < len(FLAT) and 0 <= j < len(REPS) and 0 <= gen <= 2
    """
    # TWO convertible symbols (possibly from two SMIv1 base modules, one of which may be the SMIv2-era home of the other)
    # imported by the same module: each ends up imported from ITS mapped home
    p1, p2 = pick(FLAT, i), pick(REPS, j)
    if p1 == p2:
        return True
    pairs = [p2, p1] if swap else [p1, p2]
    imports = {}
    for mod, sym in pairs:
        imports.setdefault(mod, []).append(sym)
    g = (_symtable.SymtableCodeGen, _intermediate.IntermediateCodeGen, _pysnmp.PySnmpCodeGen)[gen]()
    out, mods = g.genImports(imports)
    imap = g._importMap
    for mod, sym in pairs:
        for newmod, newsym in AbstractCodeGen.convertImportv2[mod][sym]:
            names = _symtable.SymtableCodeGen.symsTable.get(newsym, (newsym,)) if gen == 0 else (newsym,)
            for nme in names:
                if imap.get(nme.replace('-', '_')) != newmod:
                    return False
            if gen != 0 and newsym not in out['imports'].get(newmod, []):
                return False
    return True


def reserved_alias(dialect: int) -> bool:
    """
    requires: 0 <= dialect <= 2
    """
    lx = tok.get_parser(pick(['smiV2', 'smiV1', 'smiV1Relaxed'], dialect)).lexer
    r = lx.reserved
    ok = r.get('Counter') == 'COUNTER32' and r.get('Gauge') == 'GAUGE32' and r.get('Counter32') == 'COUNTER32' \
        and r.get('Gauge32') == 'GAUGE32' and r.get('ACCESS') == 'ACCESS' and r.get('TRAP-TYPE') == 'TRAP_TYPE'
    if dialect >= 1:
        ok = ok and r.get('NetworkAddress') == 'NETWORKADDRESS'
    return ok


def conditions(prop, tier):
    q = tier == 'quick'
    t = 280 if q else 1500
    out = []
    shards = [(1, 0), (1, 1), (1, 2), (1, 3), (0, 0), (1, 8)] if q else [(be, ti) for be in (0, 1) for ti in range(len(TYPES))]
    for be, ti in shards:
        out.append(dict(name='C16.transliteration.%s-type%d' % ('pysnmp' if be else 'json', ti), fn='transliteration',
                        fixed=dict(backend=be, ti=ti), timeout=t,
                        extra_pre=['trap_no <= 1 and a1 <= 1'] if q else [],
                        bounds='SMIv1 module (ACCESS, SYNTAX %s, TRAP-TYPE with 0..2 VARIABLES, SMIv1 IMPORTS) vs its SMIv2 transliteration: '
                               'access x variables x hyphenated name x declaration order x arcs/trap number from boundary sets' % TYPES[ti][0]))
    for gen in (0, 1, 2):
        out.append(dict(name='C16.import-rewrite.gen%d' % gen, fn='import_rewrite', fixed=dict(gen=gen), timeout=t,
                        bounds='(module, symbol) picked by symbolic index over ALL %d entries of convertImportv2; generator %d of '
                               '(symtable, intermediate, pysnmp); with/without unrelated imports' % (len(FLAT), gen)))
    for gen in (0, 1, 2):
        out.append(dict(name='C16.import-rewrite-pair.gen%d' % gen, fn='import_rewrite_pair', fixed=dict(gen=gen), timeout=t,
                        extra_pre=['i % 3 == 0'] if q else [],
                        bounds='two convertible symbols in one IMPORTS: one by symbolic index over all %d entries of convertImportv2, the other over '
                               '%d representatives (two per SMIv1 base module); both clause orders' % (len(FLAT), len(REPS))))
    out.append(dict(name='C16.reserved-alias', fn='reserved_alias', fixed={}, timeout=t, bounds='reserved-word tables of the three shipped dialects'))
    return out


def selftests(prop):
    return [('transliteration', dict(ti=0, ai=0, nvars=2, trap_no=2, a1=1, hy=False, trap_first=False, backend=1)),
            ('transliteration', dict(ti=3, ai=1, nvars=0, trap_no=0, a1=0, hy=True, trap_first=True, backend=0)),
            ('import_rewrite', dict(i=0, gen=1, extra=True)), ('import_rewrite_pair', dict(i=40, j=3, gen=1, swap=True)),
            ('reserved_alias', dict(dialect=0)), ('reserved_alias', dict(dialect=1)), ('reserved_alias', dict(dialect=2))]


def v1_index_type(backend: int) -> bool:
    """
    requires: 0 <= backend <= 1
    """
    # an SMIv1 table whose INDEX clause names a TYPE (INTEGER) instead of an object: documented SMIv1 usage, accepted by
    # the smiV1 dialect - it must compile (known finding: it does not)
    from harness import realpipe
    v1 = ('T-MIB DEFINITIONS ::= BEGIN\nIMPORTS OBJECT-TYPE FROM RFC-1212;\n'
          'tTable OBJECT-TYPE SYNTAX SEQUENCE OF TEntry ACCESS not-accessible STATUS mandatory DESCRIPTION "d" ::= { 1 3 5 }\n'
          'tEntry OBJECT-TYPE SYNTAX TEntry ACCESS not-accessible STATUS mandatory DESCRIPTION "d" INDEX { INTEGER, t1 } ::= { tTable 1 }\n'
          'TEntry ::= SEQUENCE { t1 INTEGER }\n'
          't1 OBJECT-TYPE SYNTAX INTEGER ACCESS read-only STATUS mandatory DESCRIPTION "d" ::= { tEntry 1 }\nEND\n')
    try:
        realpipe.generate([v1], backend='pysnmp' if backend else 'json', dialect='smiV1')
    except Exception:
        return False
    return True


def replay_home(newmod, newsym):
    """does the pysnmp MIB set shipped in the environment export `newsym` from `newmod`? True = yes"""
    from pysnmp.smi.builder import MibBuilder
    from pysmi.codegen.pysnmp import PySnmpCodeGen
    mb = MibBuilder()
    names = PySnmpCodeGen.SMI_OBJECTS.get(newsym, [newsym])
    try:
        mb.importSymbols(newmod, *[n.replace('-', '_') if False else n for n in names])
    except Exception:
        return False
    return True


def solver_obligations(prop, tier, ctx):
    """independent oracle data for the import map: every (SMIv2 module, symbol) a SMIv1 import is rewritten to must be
    exported by that module in the pysnmp MIB set shipped with the environment (for the modules that are shipped).
    A table look-up against executed pysnmp modules, not a solver query; recorded as a side condition."""
    import os
    import pysnmp.smi.mibs as mibs
    shipped = set(f[:-3] for f in os.listdir(os.path.dirname(mibs.__file__)) if f.endswith('.py'))
    bad = []
    n = 0
    for mod in sorted(AbstractCodeGen.convertImportv2):
        for sym, targets in sorted(AbstractCodeGen.convertImportv2[mod].items()):
            for newmod, newsym in targets:
                if newmod not in shipped:
                    continue
                n += 1
                if not replay_home(newmod, newsym):
                    bad.append((mod, sym, newmod, newsym))
    rec = dict(cond='C16.import-home-exists', fn='AbstractCodeGen.convertImportv2 vs pysnmp.smi.mibs', paths=0, queries=0, verdict='STATIC',
               bounds='%d rewritten imports whose SMIv2 home module is shipped with pysnmp (%s)' % (n, ', '.join(sorted(shipped & set(
                   t[0] for mm in AbstractCodeGen.convertImportv2.values() for tl in mm.values() for t in tl)))))
    if not bad:
        rec.update(status='held', confirmed_paths=n)
        return [rec]
    mod, sym, newmod, newsym = bad[0]
    rel = 'replays/C16-import-home.py'
    os.makedirs(os.path.join(ctx['verif'], 'replays'), exist_ok=True)
    with open(os.path.join(ctx['verif'], rel), 'w') as fh:
        fh.write('import os, sys\nsys.path.insert(0, os.environ.get("VERIF_REPO", "/repo"))\n'
                 'sys.path.insert(0, os.path.dirname(os.path.dirname(os.path.abspath(__file__))))\n'
                 'from pysmi.codegen.base import AbstractCodeGen\nfrom harness.c16_smiv1 import replay_home\n'
                 't = AbstractCodeGen.convertImportv2[%r][%r]\nsys.exit(0 if all(replay_home(a, b) for a, b in t) else 1)\n' % (mod, sym))
    rec.update(status='violation', counterexample=dict(smiv1=(mod, sym), rewritten_to=(newmod, newsym)), replay=rel,
               message='%s::%s is rewritten to %s::%s, which that module does not define' % (mod, sym, newmod, newsym))
    return [rec]
