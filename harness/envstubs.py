"""Nondeterministic environment stubs (engine ENV).

They are installed by assignment into the *module namespace* of the unit under
test (e.g. ``localfile.os = FakeOs(fs)``); /repo is never edited.
"""
import errno


class ModelFS(object):
    """In-memory file system + single-fault schedule.

    fault_at  index (1-based) of the faultable call that fails; 0 / beyond the run = no fault
    kind      1: the call raises OSError; 2: os.write writes only `shortn` < len bytes (other calls succeed)
    """

    def __init__(self, fault_at=0, kind=1, shortn=0):
        self.dirs = set()
        self.files = {}
        self.mtimes = {}
        self.fds = {}
        self.ncalls = 0
        self.nmut = 0
        self.fault_at = fault_at
        self.kind = kind
        self.shortn = shortn
        self.tmpn = 0
        self.trace = []
        self.ino = {}           # path -> inode number (assigned lazily); descriptors refer to inodes, as in a real kernel
        self.fdino = {}
        self.fdoff = {}
        self.nino = 0
        self.sched = None       # optional cooperative scheduler (C13 concurrent writers): every call is a yield point

    def ino_of(self, path):
        if path not in self.ino:
            self.nino += 1
            self.ino[path] = self.nino
        return self.ino[path]

    def open_fd(self, path):
        self.tmpn += 1
        fd = 2 + self.tmpn
        self.fds[fd] = path
        self.fdino[fd] = self.ino_of(path)
        self.fdoff[fd] = 0
        return fd

    def path_of_fd(self, fd):
        i = self.fdino.get(fd)
        for p in self.files:
            if self.ino.get(p) == i:
                return p
        return None

    def yield_(self, op, faultable=False):
        if self.sched is not None:
            return self.sched.point(op, faultable)
        return None

    def fault(self, op):
        inj = self.yield_(op, True)         # with a scheduler the fault decision is taken there (main thread)
        self.ncalls += 1
        self.trace.append(op)
        if inj == 'error':
            self.trace.append('FAULT')
            raise OSError(errno.EIO, 'injected fault in %s' % op)
        if inj == 'short' and op == 'write':
            return 'short'
        if self.ncalls == self.fault_at:
            if self.kind == 1:
                self.trace.append('FAULT')
                raise OSError(errno.EIO, 'injected fault in %s' % op)
            if self.kind == 2 and op == 'write':
                return 'short'
        return None


class FakePath(object):
    def __init__(self, fs):
        self.fs = fs

    def exists(self, p):
        self.fs.yield_('exists')
        return p in self.fs.files or p in self.fs.dirs

    def isfile(self, p):
        return p in self.fs.files

    def isdir(self, p):
        return p in self.fs.dirs

    def join(self, a, *rest):
        for b in rest:
            a = a + '/' + b
        return a

    def normpath(self, p):
        return p

    def getmtime(self, p):
        self.fs.fault('getmtime')
        if p not in self.fs.files and p not in self.fs.dirs:
            raise OSError(errno.ENOENT, p)
        return self.fs.mtimes[p]

    def split(self, p):
        i = p.rfind('/')
        return p[:i], p[i + 1:]

    def basename(self, p):
        return p[p.rfind('/') + 1:]

    def sep(self):
        return '/'


class FakeOs(object):
    F_OK = 0
    sep = '/'
    O_RDONLY, O_WRONLY, O_RDWR, O_CREAT, O_EXCL, O_TRUNC, O_APPEND = 0, 1, 2, 64, 128, 512, 1024

    def __init__(self, fs):
        self.fs = fs
        self.path = FakePath(fs)

    def makedirs(self, p, *a, **kw):
        self.fs.fault('makedirs')
        if p in self.fs.dirs or p in self.fs.files:
            if not kw.get('exist_ok') or p in self.fs.files:
                raise OSError(errno.EEXIST, p)
            return
        self.fs.nmut += 1
        self.fs.dirs.add(p)

    def open(self, p, flags, mode=0o777):
        """os.open for writers that create their (temporary) file themselves"""
        self.fs.fault('open')
        if p not in self.fs.files:
            if not flags & self.O_CREAT:
                raise OSError(errno.ENOENT, p)
            self.fs.nmut += 1
            self.fs.files[p] = b''
        elif flags & self.O_EXCL and flags & self.O_CREAT:
            raise OSError(errno.EEXIST, p)
        elif flags & self.O_TRUNC:
            self.fs.nmut += 1
            self.fs.files[p] = b''
        return self.fs.open_fd(p)

    def write(self, fd, data):
        r = self.fs.fault('write')
        self.fs.nmut += 1
        if fd not in self.fs.fds:
            raise OSError(errno.EBADF, 'bad descriptor')
        n = len(data)
        if r == 'short' and n > 0:
            n = self.fs.shortn if self.fs.shortn < n else n - 1
            self.fs.trace.append('SHORT')
        path = self.fs.path_of_fd(fd)          # the inode may have been renamed meanwhile; unlinked: data goes nowhere
        if path is not None:
            off = self.fs.fdoff[fd]
            cur = self.fs.files[path]
            self.fs.files[path] = cur[:off] + data[:n] + cur[off + n:]
            self.fs.fdoff[fd] = off + n
        return n

    def fsync(self, fd):
        self.fs.fault('fsync')

    def close(self, fd):
        self.fs.fds.pop(fd, None)
        self.fs.fault('close')

    def rename(self, a, b):
        self.fs.fault('rename')
        self.fs.nmut += 1
        if a not in self.fs.files:
            raise OSError(errno.ENOENT, a)
        self.fs.files[b] = self.fs.files.pop(a)
        self.fs.ino[b] = self.fs.ino_of(a)
        del self.fs.ino[a]

    replace = rename

    def unlink(self, p):
        self.fs.yield_('unlink')
        self.fs.nmut += 1
        self.fs.trace.append('unlink')
        if p not in self.fs.files:
            raise OSError(errno.ENOENT, p)
        del self.fs.files[p]
        self.fs.ino.pop(p, None)

    remove = unlink

    def access(self, p, mode):
        self.fs.yield_('access')
        return p in self.fs.files or p in self.fs.dirs

    def stat(self, p):
        self.fs.fault('stat')
        if p not in self.fs.files and p not in self.fs.dirs:
            raise OSError(errno.ENOENT, p)
        return [0, 0, 0, 0, 0, 0, 0, 0, self.fs.mtimes[p], 0]


class FakeTempfile(object):
    def __init__(self, fs):
        self.fs = fs

    def mkstemp(self, suffix=None, prefix=None, dir=None, text=False):
        self.fs.fault('mkstemp')
        self.fs.nmut += 1
        p = dir + '/tmp%d' % (self.fs.tmpn + 1)
        self.fs.files[p] = b''
        return self.fs.open_fd(p), p


class FakePyCompile(object):
    """py_compile stand-in; outcome 0 ok, 1 SyntaxError, 2 PyCompileError, 3 any other exception"""

    class PyCompileError(Exception):
        pass

    def __init__(self, fs, outcome):
        self.fs = fs
        self.outcome = outcome

    def compile(self, file, cfile=None, dfile=None, doraise=False, optimize=-1, **kw):
        self.fs.trace.append('py_compile')
        if self.outcome == 1:
            raise SyntaxError('injected')
        if self.outcome == 2:
            raise FakePyCompile.PyCompileError('injected')
        if self.outcome == 3:
            raise RuntimeError('injected')
        return file + 'c'
