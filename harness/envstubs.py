"""Nondeterministic environment stubs (engine ENV).

They are installed by assignment into the *module namespace* of the unit under
test (e.g. ``localfile.os = FakeOs(fs)``); /repo is never edited.
"""
import errno


class ModelFS(object):
    """In-memory file system + single-fault schedule.

    fault_at  index (1-based) of the faultable call that fails; 0 / beyond the run = no fault
    kind      1: the call raises OSError; 2: os.write writes only `shortn` < len bytes (other calls succeed)
    """

    def __init__(self, fault_at=0, kind=1, shortn=0):
        self.dirs = set()
        self.files = {}
        self.mtimes = {}
        self.fds = {}
        self.ncalls = 0
        self.nmut = 0
        self.fault_at = fault_at
        self.kind = kind
        self.shortn = shortn
        self.tmpn = 0
        self.trace = []

    def fault(self, op):
        self.ncalls += 1
        self.trace.append(op)
        if self.ncalls == self.fault_at:
            if self.kind == 1:
                self.trace.append('FAULT')
                raise OSError(errno.EIO, 'injected fault in %s' % op)
            if self.kind == 2 and op == 'write':
                return 'short'
        return None


class FakePath(object):
    def __init__(self, fs):
        self.fs = fs

    def exists(self, p):
        return p in self.fs.files or p in self.fs.dirs

    def isfile(self, p):
        return p in self.fs.files

    def isdir(self, p):
        return p in self.fs.dirs

    def join(self, a, *rest):
        for b in rest:
            a = a + '/' + b
        return a

    def normpath(self, p):
        return p

    def getmtime(self, p):
        self.fs.fault('getmtime')
        if p not in self.fs.files and p not in self.fs.dirs:
            raise OSError(errno.ENOENT, p)
        return self.fs.mtimes[p]

    def split(self, p):
        i = p.rfind('/')
        return p[:i], p[i + 1:]

    def basename(self, p):
        return p[p.rfind('/') + 1:]

    def sep(self):
        return '/'


class FakeOs(object):
    F_OK = 0
    sep = '/'

    def __init__(self, fs):
        self.fs = fs
        self.path = FakePath(fs)

    def makedirs(self, p, *a, **kw):
        self.fs.fault('makedirs')
        self.fs.nmut += 1
        self.fs.dirs.add(p)

    def write(self, fd, data):
        r = self.fs.fault('write')
        self.fs.nmut += 1
        path = self.fs.fds[fd]
        n = len(data)
        if r == 'short' and n > 0:
            n = self.fs.shortn if self.fs.shortn < n else n - 1
            self.fs.trace.append('SHORT')
        self.fs.files[path] = self.fs.files[path] + data[:n]
        return n

    def fsync(self, fd):
        self.fs.fault('fsync')

    def close(self, fd):
        self.fs.fds.pop(fd, None)
        self.fs.fault('close')

    def rename(self, a, b):
        self.fs.fault('rename')
        self.fs.nmut += 1
        if a not in self.fs.files:
            raise OSError(errno.ENOENT, a)
        self.fs.files[b] = self.fs.files.pop(a)

    replace = rename

    def unlink(self, p):
        self.fs.nmut += 1
        self.fs.trace.append('unlink')
        if p not in self.fs.files:
            raise OSError(errno.ENOENT, p)
        del self.fs.files[p]

    remove = unlink

    def access(self, p, mode):
        return p in self.fs.files or p in self.fs.dirs

    def stat(self, p):
        self.fs.fault('stat')
        if p not in self.fs.files and p not in self.fs.dirs:
            raise OSError(errno.ENOENT, p)
        return [0, 0, 0, 0, 0, 0, 0, 0, self.fs.mtimes[p], 0]


class FakeTempfile(object):
    def __init__(self, fs):
        self.fs = fs

    def mkstemp(self, suffix=None, prefix=None, dir=None, text=False):
        self.fs.fault('mkstemp')
        self.fs.nmut += 1
        self.fs.tmpn += 1
        p = dir + '/tmp%d' % self.fs.tmpn
        self.fs.files[p] = b''
        fd = 2 + self.fs.tmpn
        self.fs.fds[fd] = p
        return fd, p


class FakePyCompile(object):
    """py_compile stand-in; outcome 0 ok, 1 SyntaxError, 2 PyCompileError, 3 any other exception"""

    class PyCompileError(Exception):
        pass

    def __init__(self, fs, outcome):
        self.fs = fs
        self.outcome = outcome

    def compile(self, file, cfile=None, dfile=None, doraise=False, optimize=-1, **kw):
        self.fs.trace.append('py_compile')
        if self.outcome == 1:
            raise SyntaxError('injected')
        if self.outcome == 2:
            raise FakePyCompile.PyCompileError('injected')
        if self.outcome == 3:
            raise RuntimeError('injected')
        return file + 'c'
