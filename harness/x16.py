"""C16, pysnmp side (engine EXEC): the SMIv1 module and its SMIv2 transliteration, generated with the real template and loaded
by pysnmp, agree with their JSON documents (SMIv1 types map to their SMIv2 classes, ACCESS is the max access, TRAP-TYPE is a
notification with its objects)."""
from harness.c16_smiv1 import *          # noqa: F401,F403
from harness import c16_smiv1 as _b, execpy

execpy.install(globals(), _b, ['transliteration'], ('kind', 'oid', 'access', 'basetype', 'refs'))

X = 'the real template + compile() + pysnmp executed concretely on every solver-explored shape; '


def conditions(prop, tier):
    q = tier == 'quick'
    t = 280 if q else 1500
    out = []
    for ti in range(len(TYPES)):
        out.append(dict(name='C16.exec.transliteration.t%d' % ti, fn='x_transliteration', fixed=dict(ti=ti, backend=0),
                        extra_pre=['trap_no <= 1 and a1 <= 1'] if q else [], timeout=t,
                        bounds=X + 'SMIv1 type spelling %d x access x variables x name form x order; both the v1 module and its transliteration' % ti))
    return out


def selftests(prop):
    return [('x_transliteration', dict(ti=0, ai=0, nvars=2, trap_no=2, a1=1, hy=False, trap_first=False, backend=0))]
