"""C16, pysnmp side (engine EXEC): the SMIv1 module and its SMIv2 transliteration, generated with the real template and loaded
by pysnmp, agree with their JSON documents (SMIv1 types map to their SMIv2 classes, ACCESS is the max access, TRAP-TYPE is a
notification with its objects)."""
from harness.c16_smiv1 import *          # noqa: F401,F403
from harness import c16_smiv1 as _b, execpy

execpy.install(globals(), _b, ['transliteration'], ('kind', 'oid', 'access', 'basetype', 'refs'))

X = 'the real template + compile() + pysnmp executed concretely on every solver-explored shape; '


def conditions(prop, tier):
    q = tier == 'quick'
    t = 280 if q else 1500
    out = []
    for ti in range(len(TYPES)):
        if q:
            out.append(dict(name='C16.exec.transliteration.t%d' % ti, fn='x_transliteration', fixed=dict(ti=ti, backend=0, trap_no=1, a1=1, hy=False),
                            timeout=t, bounds=X + 'SMIv1 type spelling %d x access x 0-2 variables x order; both the v1 module and its transliteration' % ti))
        else:
            for ai in range(4):
                out.append(dict(name='C16.exec.transliteration.t%d.a%d' % (ti, ai), fn='x_transliteration', fixed=dict(ti=ti, ai=ai, backend=0),
                                timeout=t, bounds=X + 'SMIv1 type spelling %d, access %d x variables x trap numbers x enterprise arcs x name form x order' % (ti, ai)))
    return out


def selftests(prop):
    return [('x_transliteration', dict(ti=0, ai=0, nvars=2, trap_no=2, a1=1, hy=False, trap_first=False, backend=0))]
