"""Public-API pipeline used by replays: real lexer + parser + symbol table + code generators (real Jinja2),
and execution of generated pysnmp modules against a pysnmp MibBuilder."""
from pysmi.parser.smi import parserFactory
from pysmi.parser import dialect as _dialect
from pysmi.codegen.symtable import SymtableCodeGen
from pysmi.codegen.pysnmp import PySnmpCodeGen
from pysmi.codegen.jsondoc import JsonCodeGen

DIALECTS = {'smiV2': _dialect.smiV2, 'smiV1': _dialect.smiV1, 'smiV1Relaxed': _dialect.smiV1Relaxed}


def generate(texts, backend='pysnmp', dialect='smiV2', genTexts=True, textFilter=None):
    """texts: list of MIB file texts -> {module name: generated text}"""
    parser = parserFactory(**DIALECTS[dialect])()
    trees = []
    for t in texts:
        trees.extend(parser.parse(t))
    sg = SymtableCodeGen()
    symtab = {}
    for tree in trees:
        mi, st = sg.genCode(tree, symtab)
        symtab[mi.name] = st
    cg = PySnmpCodeGen() if backend == 'pysnmp' else JsonCodeGen()
    out = {}
    for tree in trees:
        kw = dict(genTexts=genTexts)
        if textFilter is not None:
            kw['textFilter'] = textFilter
        mi, text = cg.genCode(tree, symtab, **kw)
        out[mi.name] = text
    return out


def execute(pycode, name='generated'):
    """compile and run a generated pysnmp module; returns its namespace"""
    from pysnmp.smi.builder import MibBuilder
    mibBuilder = MibBuilder()
    mibBuilder.loadTexts = True
    ctx = {'mibBuilder': mibBuilder}
    exec(compile(pycode, name, 'exec'), ctx, ctx)
    return ctx


def execute_set(named_codes):
    """run several generated pysnmp modules, in the given order, against ONE MibBuilder; returns {name: namespace}"""
    from pysnmp.smi.builder import MibBuilder
    mibBuilder = MibBuilder()
    mibBuilder.loadTexts = True
    out = {}
    for name, code in named_codes:
        ctx = {'mibBuilder': mibBuilder}
        exec(compile(code, name, 'exec'), ctx, ctx)
        out[name] = ctx
    return out, mibBuilder
