"""Engine LEX: the REAL PLY lexer loop and the REAL t_* actions of pysmi over symbolic text.

The compiled master regexes in `lexer.lexstatere` are replaced by ShimRe objects: a pure-Python backtracking matcher
that interprets re._parser's AST of the SAME pattern text PLY assembled from the rule docstrings (ordered alternation,
classes, ranges, negation, greedy/lazy repeats, groups, look-ahead, DOTALL). Everything else - Lexer.token(), states,
literals, t_ignore, every t_* action - runs unmodified. The shim is validated against C `re` on the repo's MIB texts.
"""
import re
try:
    import re._parser as sp
    import re._constants as sc
except ImportError:
    import sre_parse as sp
    import sre_constants as sc


def _in(items, ch):
    neg = False
    ok = False
    o = ord(ch)
    for op, av in items:
        if op is sc.NEGATE:
            neg = True
        elif op is sc.LITERAL:
            if o == av:
                ok = True
        elif op is sc.RANGE:
            if av[0] <= o <= av[1]:
                ok = True
        else:
            raise NotImplementedError(op)
    return ok != neg


def m(nodes, i, s, pos, k, flags):
    """match nodes[i:] at s[pos:]; continuation k(pos) -> end or None"""
    if i == len(nodes):
        return k(pos)
    op, av = nodes[i]

    def nxt(p):
        return m(nodes, i + 1, s, p, k, flags)
    if op is sc.LITERAL:
        return nxt(pos + 1) if pos < len(s) and ord(s[pos]) == av else None
    if op is sc.NOT_LITERAL:
        return nxt(pos + 1) if pos < len(s) and ord(s[pos]) != av else None
    if op is sc.ANY:
        return nxt(pos + 1) if pos < len(s) and (flags & re.DOTALL or s[pos] != '\n') else None
    if op is sc.IN:
        return nxt(pos + 1) if pos < len(s) and _in(av, s[pos]) else None
    if op is sc.BRANCH:
        for alt in av[1]:
            r = m(list(alt), 0, s, pos, nxt, flags)
            if r is not None:
                return r
        return None
    if op is sc.SUBPATTERN:
        return m(list(av[3]), 0, s, pos, nxt, flags)
    if op in (sc.MAX_REPEAT, sc.MIN_REPEAT):
        lo, hi, sub = av
        sub = list(sub)

        def rep(p, n):
            if op is sc.MAX_REPEAT:
                if hi is sc.MAXREPEAT or n < hi:
                    r = m(sub, 0, s, p, lambda q: rep(q, n + 1) if q > p else None, flags)
                    if r is not None:
                        return r
                return nxt(p) if n >= lo else None
            else:
                if n >= lo:
                    r = nxt(p)
                    if r is not None:
                        return r
                if hi is sc.MAXREPEAT or n < hi:
                    return m(sub, 0, s, p, lambda q: rep(q, n + 1) if q > p else None, flags)
                return None
        return rep(pos, 0)
    if op is sc.ASSERT:
        d, sub = av
        if d != 1:
            raise NotImplementedError('look-behind')
        r = m(list(sub), 0, s, pos, lambda q: q, flags)
        return nxt(pos) if r is not None else None
    raise NotImplementedError(op)


class M(object):
    def __init__(self, s, a, b, idx):
        self.s, self.a, self.b, self.lastindex = s, a, b, idx

    def group(self, *a):
        return self.s[self.a:self.b]

    def end(self):
        return self.b

    def start(self):
        return self.a

    def span(self):
        return (self.a, self.b)


class ShimRe(object):
    def __init__(self, cre):
        self.flags = cre.flags
        self.pattern = cre.pattern
        tree = sp.parse(cre.pattern, cre.flags)
        top = list(tree)
        if len(top) == 1 and top[0][0] is sc.BRANCH:
            alts = [list(a) for a in top[0][1][1]]
        else:
            alts = [top]
        self.alts = []
        for alt in alts:
            # each alternative of PLY's master regex is one named group; lastindex = its group number
            if len(alt) != 1 or alt[0][0] is not sc.SUBPATTERN:
                raise NotImplementedError('unexpected master regex shape')
            self.alts.append((alt[0][1][0], alt))

    def match(self, s, pos=0):
        for gid, alt in self.alts:
            e = m(alt, 0, s, pos, lambda q: q, self.flags)
            if e is not None:
                return M(s, pos, e, gid)
        return None


def install(plylexer):
    """swap the compiled regexes of a ply Lexer for shims (idempotent)"""
    for st, lst in plylexer.lexstatere.items():
        plylexer.lexstatere[st] = [(cre if isinstance(cre, ShimRe) else ShimRe(cre), names) for cre, names in lst]
    plylexer.lexre = plylexer.lexstatere[plylexer.lexstate]
    return plylexer


def tokens_of(plylexer, text, state='INITIAL', lineno=1):
    l = plylexer.clone()
    l.begin(state)
    l.lineno = lineno
    l.input(text)
    out = []
    while True:
        t = l.token()
        if t is None:
            break
        out.append((t.type, t.value, t.lineno, t.lexpos))
    return out, l.lineno, l.lexstate


class ShimReModule(object):
    """stand-in for the `re` module inside pysmi.lexer.smi while the lexer runs on symbolic text: findall() is
    interpreted by the same pure-Python matcher (C `re` would realise the symbolic string)"""
    DOTALL = re.DOTALL
    _cache = {}

    @classmethod
    def findall(cls, pattern, string, flags=0):
        key = (pattern, flags)
        if key not in cls._cache:
            cls._cache[key] = list(sp.parse(pattern, flags))
        nodes = cls._cache[key]
        out = []
        pos = 0
        n = len(string)
        while pos <= n:
            e = m(nodes, 0, string, pos, lambda q: q, flags)
            if e is not None and e > pos:
                out.append(string[pos:e])
                pos = e
            else:
                pos += 1
        return out

    @staticmethod
    def compile(*a, **kw):
        return re.compile(*a, **kw)


def install_re_shim():
    import pysmi.lexer.smi as lexmod
    lexmod.re = ShimReModule
