"""C14: readers return the right file for a module name.

* AbstractReader.getMibVariants: direct SMT obligation (engine BSTR) - the function body is interpreted from its AST into
  z3 terms over a bounded symbolic name (every path of the if-tree, the four matching flags as path choices).
* FileReader.getData / loadIndex / getSubdirs (XH + ModelFS), ZipReader (XH + ModelZip), getReadersFromUrls (XH + stubs).
"""
import errno

from pysmi.reader import localfile, zipreader, url as urlmod
from pysmi.reader.base import AbstractReader
from pysmi import error

CONTENTS = [b'', b'A DEFINITIONS ::= BEGIN END', b'caf\xc3\xa9', b'\xff\xfebad-utf8', b'x']
NAMES = ['IF-MIB', 'if-mib', 'IF', 'Foo']


def pick(table, k):
    for i in range(len(table)):
        if k == i:
            return table[i]
    return table[0]


# ---- in-memory directory tree ------------------------------------------------------------------------------------

class Tree(object):
    def __init__(self):
        self.dirs = {'/m': []}            # path -> child names (in listing order)
        self.files = {}                   # path -> (content, mtime)
        self.fail_open = None
        self.fail_listdir = None

    def add_dir(self, parent, name):
        self.dirs[parent].append(name)
        self.dirs[parent + '/' + name] = []

    def add_file(self, parent, name, content, mtime):
        self.dirs[parent].append(name)
        self.files[parent + '/' + name] = (content, mtime)


class _TPath(object):
    def __init__(self, t):
        self.t = t

    def join(self, a, *rest):
        for b in rest:
            a = a + '/' + b
        return a

    def normpath(self, p):
        return p

    def exists(self, p):
        return p in self.t.files or p in self.t.dirs

    def isfile(self, p):
        return p in self.t.files

    def isdir(self, p):
        return p in self.t.dirs

    def basename(self, p):
        return p[p.rfind('/') + 1:]


class _TOs(object):
    extsep = '.'

    def __init__(self, t):
        self.t = t
        self.path = _TPath(t)

    def listdir(self, p):
        if self.t.fail_listdir == p or p not in self.t.dirs:
            raise OSError(errno.EACCES, p)
        return list(self.t.dirs[p])

    def stat(self, p):
        if p not in self.t.files:
            raise OSError(errno.ENOENT, p)
        return [0] * 8 + [self.t.files[p][1], 0]


class _TFile(object):
    def __init__(self, data, text):
        self.data = data
        self.text = text

    def read(self, n=-1):
        return self.data if n < 0 else self.data[:n]

    def readlines(self):
        s = self.data.decode('utf-8')
        return [l + '\n' for l in s.split('\n') if l]

    def close(self):
        pass


def _opener(t):
    def fake_open(path, mode='r'):
        if t.fail_open == path or path not in t.files:
            raise IOError(errno.EACCES, path)
        return _TFile(t.files[path][0], 'b' not in mode)
    return fake_open


def file_reader(ask: int, top: int, sub: int, subsub: int, fi: int, ci: int, mt: int, recursive: bool,
                ignoreErrors: bool, index: int, unreadable: bool, noise: bool) -> bool:
    """
    requires: 0 <= ask < 4 and 0 <= top <= 2 and 0 <= sub <= 2 and 0 <= subsub <= 1 and 0 <= fi <= 6 and 0 <= ci < 5
    requires: 0 <= index <= 2
    """
    # the wanted file sits (top=1) in the top directory, (sub=1) in a sub-directory, (subsub=1) two levels down, under
    # the fi-th variant of the name; value 2 = a DIRECTORY of that name instead of a file
    name = pick(NAMES, ask)
    rd0 = AbstractReader()
    variants = [v[1] for v in rd0.getMibVariants(name)]
    fname = variants[(fi * 5) % len(variants)]
    content = pick(CONTENTS, ci)
    t = Tree()
    t.add_dir('/m', 'sub')
    t.add_dir('/m/sub', 'deep')
    places = []
    for where, flag in (('/m', top), ('/m/sub', sub), ('/m/sub/deep', subsub)):
        if flag == 1:
            t.add_file(where, fname, content, mt)
            places.append(where)
        elif flag == 2:
            t.add_dir(where, fname)
    if noise:
        t.add_file('/m', 'UNRELATED-MIB.txt', b'other', 1)
        t.add_file('/m/sub', name + '-EXTRA', b'other', 1)
        t.add_file('/m', 'X' + name, b'other', 1)
    idx_target = None
    if index:
        # an .index file maps the module name to some file name (index=1: an existing file, 2: a missing one)
        idx_target = 'indexed.dat'
        t.add_file('/m', '.index', ('%s %s\nOTHER other.txt\n' % (name, idx_target)).encode(), 1)
        if index == 1:
            t.add_file('/m', idx_target, b'INDEXED', 77)
    if unreadable and places:
        t.fail_open = places[0] + '/' + fname
    localfile.os = _TOs(t)
    localfile.open = _opener(t)
    rd = localfile.FileReader('/m', recursive=recursive, ignoreErrors=ignoreErrors)
    try:
        info, data = rd.getData(name)
        got = 'ok'
    except error.PySmiReaderFileNotFoundError:
        got = 'not-found'
    except error.PySmiError:
        got = 'error'
    except Exception:
        return False
    searched = ['/m', '/m/sub', '/m/sub/deep'] if recursive else ['/m']
    if index:
        if index == 1:
            return got == 'ok' and data == 'INDEXED' and info.mtime == 77 and info.file == idx_target and info.name == name
        return got == 'not-found'
    hits = [p for p in places if p in searched]
    if not hits:
        return got == 'not-found'
    if unreadable and hits[0] == places[0]:
        return got == 'error'                  # a file of the right name exists but cannot be read
    if got != 'ok':
        return False
    return data == content.decode('utf-8', 'ignore') and info.mtime == mt and info.file == fname and info.name in (name, name.upper(), name.lower(), name + '-MIB', name.lower() + '-mib', name[:2], name.upper()[:2], name.lower()[:2])


# ---- in-memory ZIP archives ----------------------------------------------------------------------------------------

class _Info(object):
    def __init__(self, filename, date_time):
        self.filename = filename
        self.date_time = date_time


class _Zip(object):
    """archive model: tuple of (member path, date_time, content) where content is bytes or a nested archive tuple"""

    def __init__(self, fileobj):
        arch = getattr(fileobj, 'archive', None)
        if arch is None:
            arch = getattr(fileobj, 'buf', None)
        if not isinstance(arch, tuple):
            raise IOError('not a zip file')
        self.members = arch

    def infolist(self):
        return [_Info(mm[0], mm[1]) for mm in self.members]

    def read(self, name):
        found = None
        for mm in self.members:
            if mm[0] == name:
                found = mm
        if found is None:
            raise KeyError(name)
        if found[2] == 'CORRUPT':
            raise IOError('bad CRC')
        return found[2]


class _ZipModule(object):
    ZipFile = _Zip


class _Handle(object):
    def __init__(self, archive, name):
        self.archive = archive
        self.name = name


def zip_reader(ask: int, depth: int, fi: int, ci: int, indir: bool, dup: bool, corrupt: bool, present: bool) -> bool:
    """
    requires: 0 <= ask < 4 and 0 <= depth <= 3 and 0 <= fi <= 6 and 0 <= ci < 5
    """
    import time
    import datetime
    name = pick(NAMES, ask)
    variants = [v[1] for v in AbstractReader().getMibVariants(name)]
    fname = variants[(fi * 5) % len(variants)]
    content = pick(CONTENTS, ci)
    dt = (2020, 1, 2, 3, 4, 6)
    member_path = ('mibs/' + fname) if indir else fname
    leaf = []
    if present:
        leaf.append((member_path, dt, 'CORRUPT' if corrupt else content))
    leaf.append(('mibs/UNRELATED.txt', dt, b'other'))
    if dup:
        leaf.append(('other/UNRELATED.txt', dt, b'other2'))
    arch = tuple(leaf)
    for lvl in range(depth):
        arch = (('docs/readme', dt, b'r'), ('nested/inner%d.zip' % lvl, dt, arch))
    zipreader.zipfile = _ZipModule
    zipreader.open = lambda path, mode='r': _Handle(arch, path)
    rd = zipreader.ZipReader('/a.zip')
    try:
        info, data = rd.getData(name)
        got = 'ok'
    except error.PySmiReaderFileNotFoundError:
        got = 'not-found'
    except Exception:
        return False
    if not present or corrupt or content == b'':
        return got == 'not-found'
    if got != 'ok':
        return False
    want_mtime = time.mktime(datetime.datetime(*dt).timetuple())
    return data == content.decode('utf-8', 'ignore') and info.mtime == want_mtime and info.file == fname


# ---- URL dispatch ---------------------------------------------------------------------------------------------------

SCHEMES = ['', 'file', 'zip', 'http', 'https', 'ftp', 'sftp', 'gopher', 'mailto']


class _Rec(object):
    def __init__(self, kind):
        self.kind = kind

    def __call__(self, *a, **kw):
        r = _RecInst(self.kind, a, kw)
        return r


class _RecInst(object):
    def __init__(self, kind, a, kw):
        self.kind, self.a, self.kw = kind, a, kw
        self.opts = {}

    def setOptions(self, **kw):
        self.opts.update(kw)
        return self


def url_dispatch(si: int, ext: int, with_opts: bool) -> bool:
    """
    requires: 0 <= si < len(SCHEMES) and 0 <= ext <= 3
    """
    scheme = pick(SCHEMES, si)
    suffix = pick(['/mibs', '/mibs.zip', '/mibs.ZIP', '/mibs.zipx'], ext)
    if scheme == '':
        u = '/data' + suffix
    elif scheme in ('file', 'zip'):
        u = scheme + ':///data' + suffix
    elif scheme == 'mailto':
        u = 'mailto:x@y'
    else:
        u = scheme + '://host.example/data' + suffix
    urlmod.FileReader, urlmod.ZipReader = _Rec('file'), _Rec('zip')
    urlmod.HttpReader, urlmod.FtpReader = _Rec('http'), _Rec('ftp')
    opts = dict(fuzzyMatching=False) if with_opts else {}
    try:
        rs = urlmod.getReadersFromUrls(u, **opts)
        got = rs[0].kind if len(rs) == 1 else 'count'
        inst = rs[0]
    except error.PySmiError:
        got = 'package-error'
        inst = None
    except Exception:
        return False
    is_zip = ext in (1, 2)
    if scheme in ('', 'zip'):
        want = 'zip' if is_zip else 'file'
    elif scheme == 'file':
        if is_zip:
            return got in ('zip', 'file')       # (reading chosen: a file:// URL naming a .zip is not pinned down by the documentation)
        want = 'file'
    elif scheme in ('http', 'https'):
        want = 'http'
    elif scheme in ('ftp', 'sftp'):
        want = 'ftp'
    else:
        want = 'package-error'
    if got != want:
        return False
    if inst is not None:
        if inst.opts != opts:
            return False
        if want in ('file', 'zip') and inst.a[0] != '/data' + suffix:
            return False
        if want == 'http' and (inst.a[0] != 'host.example' or inst.a[2] != '/data' + suffix or inst.kw.get('ssl') != (scheme == 'https')):
            return False
        if want == 'http' and inst.a[1] != (443 if scheme == 'https' else 80):
            return False                        # no port in the URL: the scheme's own default port
        if want == 'ftp' and inst.kw.get('port') != 21:
            return False
        if want == 'ftp' and (inst.a[0] != 'host.example' or inst.a[1] != '/data' + suffix or inst.kw.get('ssl') != (scheme == 'sftp')):
            return False
    return True


def variants_history(ask: int, o1: bool, u1: bool, l1: bool, f1: bool, o2: bool, u2: bool, l2: bool, f2: bool, same_reader: bool) -> bool:
    """
    requires: 0 <= ask < 4
    requires: (o1 or u1 or l1) and (o2 or u2 or l2)
    """
    # the variants a reader yields depend on ITS matching options only - not on what this or another reader was asked before
    name = pick(NAMES, ask)
    first = dict(originalMatching=o1, uppercaseMatching=u1, lowcaseMatching=l1, fuzzyMatching=f1)
    second = dict(originalMatching=o2, uppercaseMatching=u2, lowcaseMatching=l2, fuzzyMatching=f2)
    a = AbstractReader().setOptions(**first)
    list(a.getMibVariants(name))
    b = a.setOptions(**second) if same_reader else AbstractReader().setOptions(**second)
    got = [x for x, y in b.getMibVariants(name)]
    lo = name.lower()
    allowed = []
    if o2:
        allowed.append(name)
    if u2:
        allowed.append(name.upper())
    if l2:
        allowed.append(lo)
    base = list(allowed)
    if f2:
        if lo.endswith('-mib'):
            allowed += [x[:len(x) - 4] for x in base]
        else:
            allowed += [(name + '-mib').upper(), (name + '-mib').lower()]
    for g in got:
        if g not in allowed:
            return False
    for w in allowed:
        if w not in got:
            return False
    return True


def real_zip(depth: int, indir: bool) -> bool:
    """
    requires: 0 <= depth <= 3
    """
    # validation of the archive model against the REAL zipfile module (concrete; run as a self-test): a module nested
    # `depth` archives deep is found with its exact content through the unmodified ZipReader
    import io
    import os
    import tempfile
    import zipfile
    import importlib
    importlib.reload(zipreader)             # undo any stub installed by zip_reader() in this process
    vars(zipreader).pop('open', None)
    content = b'FOO-MIB DEFINITIONS ::= BEGIN END -- caf\xc3\xa9'
    buf = io.BytesIO()
    with zipfile.ZipFile(buf, 'w') as z:
        z.writestr(('mibs/' if indir else '') + 'FOO-MIB.txt', content)
        z.writestr('mibs/UNRELATED.txt', b'other')
    data = buf.getvalue()
    for i in range(depth):
        buf = io.BytesIO()
        with zipfile.ZipFile(buf, 'w') as z:
            z.writestr('docs/readme', b'r')
            z.writestr('nested/inner%d.zip' % i, data)
        data = buf.getvalue()
    fd, path = tempfile.mkstemp(suffix='.zip')
    try:
        os.write(fd, data)
        os.close(fd)
        try:
            info, text = zipreader.ZipReader(path, ignoreErrors=False).getData('FOO-MIB')
        except Exception:
            return False
    finally:
        os.unlink(path)
    return text == content.decode('utf-8') and info.file == 'FOO-MIB.txt'


def conditions(prop, tier):
    q = tier == 'quick'
    t = 280 if q else 1500
    out = []
    for idx in (0, 1, 2):
        for rec in (False, True):
          for ask in ((0, 1) if idx == 0 else (None,)):
            fx = dict(index=idx, recursive=rec)
            if ask is not None:
                fx['ask'] = ask                 # (the shards without an .index file are the expensive ones: split by requested name)
            out.append(dict(name='C14.FileReader.idx%d-rec%d%s' % (idx, rec, '' if ask is None else '-n%d' % ask), fn='file_reader', fixed=fx, timeout=t,
                            extra_pre=(['fi <= 3 and ci <= 2'] if ask is not None else ['ask <= 1 and fi <= 3 and ci <= 2']) if q else [],
                            bounds='requested name from %r; the file present / absent / a directory at each of 3 directory levels under a symbolic '
                                   'variant of the name; content from a pool incl. invalid UTF-8; unbounded mtime; ignoreErrors; unreadable file; '
                                   'unrelated files with similar names; .index file %s' % (NAMES, ('absent', 'maps to an existing file', 'maps to a missing file')[idx])))
    for depth in (0, 1, 2, 3):
        if q and depth == 3:
            continue
        out.append(dict(name='C14.ZipReader.depth%d' % depth, fn='zip_reader', fixed=dict(depth=depth), timeout=t,
                        extra_pre=['ask <= 1 and fi <= 3'] if q else [],
                        bounds='archive nested %d level(s) deep; member under a symbolic variant name, in a sub-directory or not, duplicate '
                               'basenames, corrupt member, empty/invalid-UTF-8 content' % depth))
    out.append(dict(name='C14.variants-history', fn='variants_history', fixed={}, timeout=t,
                    bounds='two successive getMibVariants calls (same reader re-configured, or two readers) with every pair of settings of the '
                           'four matching flags, names from %r: the second answer is determined by the second setting alone' % (NAMES,)))
    out.append(dict(name='C14.url-dispatch', fn='url_dispatch', fixed={}, timeout=t,
                    bounds='%d URL schemes x 4 path suffixes x options pass-through' % len(SCHEMES)))
    return out


def selftests(prop):
    return [('file_reader', dict(ask=0, top=0, sub=1, subsub=0, fi=1, ci=2, mt=5, recursive=True, ignoreErrors=True, index=0, unreadable=False, noise=True)),
            ('file_reader', dict(ask=0, top=2, sub=0, subsub=0, fi=0, ci=1, mt=5, recursive=True, ignoreErrors=True, index=1, unreadable=False, noise=False)),
            ('zip_reader', dict(ask=0, depth=2, fi=2, ci=1, indir=True, dup=True, corrupt=False, present=True)),
            ('zip_reader', dict(ask=1, depth=0, fi=0, ci=1, indir=False, dup=False, corrupt=True, present=True)),
            ('variants_history', dict(ask=0, o1=True, u1=True, l1=True, f1=True, o2=True, u2=False, l2=False, f2=False, same_reader=False)),
            ('real_zip', dict(depth=0, indir=False)), ('real_zip', dict(depth=1, indir=True)), ('real_zip', dict(depth=3, indir=True)),
            ('url_dispatch', dict(si=0, ext=1, with_opts=True)), ('url_dispatch', dict(si=4, ext=0, with_opts=False))]


# ---- direct solver obligation: getMibVariants over ALL names up to the bound ------------------------------------------

def _name_charset(x):
    import z3
    return z3.Or(z3.And(x >= 65, x <= 90), z3.And(x >= 97, x <= 122), z3.And(x >= 48, x <= 57), x == 45)


def variants_obligations(repo, cap, timeout_ms=120000):
    """interpret AbstractReader.getMibVariants from its AST; for every path (flag setting x find outcome) ask z3 for a
    name of length 1..cap for which a produced base name is NOT a documented variant"""
    import ast
    import os
    import time
    import z3
    from engine import bstr, smt
    src = open(os.path.join(repo, 'pysmi/reader/base.py')).read()
    fn = smt.find_function(ast.parse(src), 'getMibVariants')
    if fn is None:
        return [dict(cond='C14.getMibVariants', status='inconclusive', verdict='NOT-FOUND', paths=0, reason='function not found')]
    flags = dict((n, z3.Bool(n)) for n in ('originalMatching', 'uppercaseMatching', 'lowcaseMatching', 'fuzzyMatching'))
    mname = bstr.fresh('m', cap)
    itp = bstr.Interp(flags)
    try:
        paths = itp.run(fn, {'mibname': mname, 'options': None})
    except bstr.Unsupported as e:
        return [dict(cond='C14.getMibVariants', status='inconclusive', verdict='UNTRANSLATABLE', paths=0, reason=str(e))]
    recs = []
    lo = bstr.lower(mname)
    total = 0.0
    nq = 0
    findings = []
    for p in paths:
        base = [z3.And(bstr.wellformed(mname, _name_charset), mname.n >= 1)] + p.conds
        if p.raised:
            s = z3.Solver()
            s.set('timeout', timeout_ms)
            s.add(*base)
            t0 = time.time()
            r = str(s.check())
            total += time.time() - t0
            nq += 1
            if r == 'sat':
                findings.append(('raises', p.raised, _model_flags(s.model(), flags), _model_str(s.model(), mname)))
            elif r != 'unsat':
                findings.append(('unknown', None, None, None))
            continue
        if p.ret is None:
            findings.append(('unknown', 'no return', None, None))
            continue
        names = p.env.get('filenames')
        if not isinstance(names, list):
            findings.append(('unknown', 'filenames not a list', None, None))
            continue
        for v in names:
            v = bstr.realise_prefix(v, p.conds)
            lv = bstr.lower(v)
            lsuf = bstr.concat_const(lo, '-mib')
            allowed = z3.Or(
                bstr.eq(v, mname), bstr.eq(v, bstr.upper(mname)), bstr.eq(v, lo),                     # as given / upper / lower
                bstr.eq(v, bstr.upper(bstr.concat_const(mname, '-mib'))), bstr.eq(v, lsuf),           # suffix added
                z3.And(bstr.endswith_const(lo, '-mib'), bstr.eq(bstr.concat_const(lv, '-mib'), lo)))  # suffix removed
            s = z3.Solver()
            s.set('timeout', timeout_ms)
            s.add(*base)
            s.add(z3.Not(allowed))
            t0 = time.time()
            r = str(s.check())
            total += time.time() - t0
            nq += 1
            if r == 'sat':
                findings.append(('variant', _model_str(s.model(), v), _model_flags(s.model(), flags), _model_str(s.model(), mname)))
            elif r != 'unsat':
                findings.append(('unknown', None, None, None))
    return paths, findings, nq, total


def _model_str(model, s):
    n = model.eval(s.n, model_completion=True).as_long()
    return ''.join(chr(model.eval(c, model_completion=True).as_long()) for c in s.c[:n])


def _model_flags(model, flags):
    return dict((k, bool(model.eval(v, model_completion=True))) for k, v in flags.items())


def replay_variants(name, flags):
    """run the REAL getMibVariants; True = every base name is a documented variant and nothing is raised"""
    rd = AbstractReader().setOptions(**flags)
    try:
        names = [a for a, b in rd.getMibVariants(name)]
    except Exception:
        return False
    lo = name.lower()
    ok = set([name, name.upper(), lo, (name + '-mib').upper(), lo + '-mib'])
    if lo.endswith('-mib'):
        ok |= set([name[:-4], name.upper()[:-4], lo[:-4]])
    return all(n in ok for n in names)


def solver_obligations(prop, tier, ctx):
    import json
    import os
    cap = 8 if tier == 'quick' else 16
    rec = dict(cond='C14.getMibVariants', fn='pysmi.reader.base.AbstractReader.getMibVariants (interpreted from its AST into z3 terms)',
               bounds='all module names of 1..%d characters over [A-Za-z0-9-], all settings of the four matching flags (z3 Bools), every path' % cap)
    r = variants_obligations(ctx['repo'], cap)
    if isinstance(r, list):
        return r
    paths, findings, nq, total = r
    rec.update(paths=len(paths), queries=nq, solver_cpu_s=round(total, 2))
    known = {}
    try:
        for f in json.load(open(os.path.join(ctx['verif'], 'known_findings.json')))['findings']:
            if f.get('status') == 'open' and f.get('id', '').startswith('KF-variants-'):
                known[f['id']] = f
    except Exception:
        pass
    out = []
    unknown = [f for f in findings if f[0] == 'unknown']
    real = []
    for kind, what, flags, name in findings:
        if kind == 'unknown':
            continue
        if replay_variants(name, flags):
            unknown.append((kind, 'model does not reproduce', flags, name))
        else:
            real.append((kind, what, flags, name))
    cut = [f for f in real if f[0] == 'variant']
    idx = [f for f in real if f[0] == 'raises']
    reported = False
    for group, kid, text in ((cut, 'KF-variants-first-mib', 'a base name cut at the FIRST "-mib" (e.g. %r -> %r) is not a documented variant of the request'),
                             (idx, 'KF-variants-no-flags', 'getMibVariants raises %s instead of yielding no variants when the matching flags are %r')):
        if not group:
            continue
        g = group[0]
        if kid in known:
            msg = text % ((g[3], g[1]) if kid.endswith('first-mib') else (g[1], g[2]))
            out.append(dict(rec, cond='C14.getMibVariants.%s' % kid, status='known', known_id=kid, message=msg, verdict='sat'))
        else:
            rel = 'replays/C14-getMibVariants-%s.py' % kid
            os.makedirs(os.path.join(ctx['verif'], 'replays'), exist_ok=True)
            with open(os.path.join(ctx['verif'], rel), 'w') as fh:
                fh.write('import os, sys\nsys.path.insert(0, os.environ.get("VERIF_REPO", "/repo"))\n'
                         'sys.path.insert(0, os.path.dirname(os.path.dirname(os.path.abspath(__file__))))\n'
                         'from harness.c14_readers import replay_variants\nsys.exit(0 if replay_variants(%r, %r) else 1)\n' % (g[3], g[2]))
            out.append(dict(rec, cond='C14.getMibVariants.%s' % kid, status='violation', verdict='sat', counterexample=dict(name=g[3], flags=g[2], got=g[1]),
                            replay=rel, message=text % ((g[3], g[1]) if kid.endswith('first-mib') else (g[1], g[2]))))
            reported = True
    if unknown:
        out.append(dict(rec, status='inconclusive', verdict='unknown', reason='solver unknown / non-reproducing model on %d queries' % len(unknown)))
    elif not real:
        out.append(dict(rec, status='held', verdict='unsat', confirmed_paths=len(paths)))
    else:
        # everything else held: record the obligation as held apart from the (known / reported) findings above
        out.append(dict(rec, cond='C14.getMibVariants.other-paths', status='held', verdict='unsat-elsewhere', confirmed_paths=len(paths) - len(real)))
    return out
