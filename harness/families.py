"""Sentence families: one builder per declaration kind producing a token sentence together with the list of
information-bearing values it contains (ground truth for C02), parameterised by small symbolic ints/bools.

A `Sent` collects tokens; `kw()` adds constant text (keywords / punctuation: not information), `val()` adds a
token whose value must show up in the syntax tree (`leaf` = the form expected there, e.g. a text minus its quotes),
`grp` names the source list the value belongs to (order inside a list must be preserved).
Constant information-bearing values are unique marker strings, so that their multiplicity can be counted.
"""
from harness.tok import lex_text, number_token


def mark(name, prefix):
    """'~x' -> a unique, lexically valid marker ('zqx' / 'ZQx' / 'zq x')"""
    return prefix + name[1:] if name[0] == '~' else name


def is_marker(v):
    return isinstance(v, str) and (v[:2] == 'zq' or v[:2] == 'ZQ')


class Sent(object):
    def __init__(self, dialect='smiV2'):
        self.dialect = dialect
        self.toks = []
        self.expect = []         # (leaf value, group or None)
        self.where = []          # token index of each expectation (None for keyword-carried ones)
        self.dropped = []        # values the grammar accepts but the current parser does not keep (known finding)
        self.pairs = []          # (keyword, leaf): the tree must hold the value paired with ITS clause keyword

    def kw(self, text):
        self.toks.extend(lex_text(text, self.dialect))
        return self

    def lit(self, ch):
        self.toks.append((ch, ch))
        return self

    def val(self, ttype, value, leaf=None, grp=None, dropped=False):
        self.toks.append((ttype, value))
        rec = (value if leaf is None else leaf, grp)
        if dropped:
            self.dropped.append(rec)
        else:
            self.expect.append(rec)
            self.where.append(len(self.toks) - 1)
        return self

    def lc(self, name, grp=None, dropped=False):
        return self.val('LOWERCASE_IDENTIFIER', mark(name, 'zq'), grp=grp, dropped=dropped)

    def uc(self, name, grp=None, dropped=False):
        return self.val('UPPERCASE_IDENTIFIER', mark(name, 'ZQ'), grp=grp, dropped=dropped)

    def ident(self, name, grp=None):
        return self.uc(name, grp) if name[0].isupper() else self.lc(name, grp)

    def text(self, inner, grp=None, dropped=False):
        inner = mark(inner, 'zq ')
        return self.val('QUOTED_STRING', '"' + inner + '"', leaf=inner, grp=grp, dropped=dropped)

    def kwtext(self, keyword, inner, grp=None):
        """clause keyword followed by its text; the parser keeps such texts as (keyword, text) pairs"""
        self.kw(keyword)
        self.text(inner, grp=grp)
        self.pairs.append((keyword, self.expect[-1][0]))
        return self

    def qtext(self, quoted_value, grp=None):
        """quoted token given WITH its quotes (symbolic string): the leaf is the value minus the quotes"""
        return self.val('QUOTED_STRING', quoted_value, leaf=quoted_value[1:len(quoted_value) - 1], grp=grp)

    def num(self, v, grp=None, dropped=False):
        t = number_token(v)
        return self.val(t[0], v, grp=grp, dropped=dropped)

    def typekw(self, text, leaf=None):
        """a type keyword (Integer32, OCTET STRING ...): its spelling is information (the parent type name)"""
        self.toks.extend(lex_text(text, self.dialect))
        self.expect.append((leaf or text, None))
        self.where.append(None)
        return self

    def extend(self, other):
        base = len(self.toks)
        self.where.extend([None if w is None else w + base for w in other.where])
        self.toks.extend(other.toks)
        self.expect.extend(other.expect)
        self.dropped.extend(other.dropped)
        self.pairs.extend(other.pairs)
        return self


def flatten(x, out):
    if isinstance(x, (tuple, list)):
        for e in x:
            flatten(e, out)
    elif isinstance(x, dict):
        for k, v in x.items():
            flatten(k, out)
            flatten(v, out)
    elif x is not None:
        out.append(x)
    return out


def _same(a, b):
    if a is b:
        return True
    sa, sb = isinstance(a, str), isinstance(b, str)
    if sa != sb:
        return False
    return a == b


def tuples_of(x, out):
    if isinstance(x, tuple):
        out.append(x)
    if isinstance(x, (tuple, list)):
        for e in x:
            tuples_of(e, out)
    elif isinstance(x, dict):
        for k, v in x.items():
            tuples_of(v, out)
    return out


def check_pairs(tree, pairs):
    """each (clause keyword, text) is present as such a pair: a text is never attached to another clause's keyword"""
    tups = tuples_of(tree, [])
    for kw, leaf in pairs:
        found = False
        for t in tups:
            if len(t) == 2 and t[0] == kw and _same(t[1], leaf):
                found = True
        if not found:
            return False
    return True


def check_leaves(tree, expect):
    """every expected value occurs among the leaves with the expected multiplicity, and the members of each
    source list keep their relative order"""
    leaves = flatten(tree, [])
    seen = []
    for v, g in expect:
        dup = False
        for s in seen:
            if _same(s, v):
                dup = True
        if dup:
            continue
        seen.append(v)
        want = 0
        for w, _g in expect:
            if _same(w, v):
                want += 1
        if not is_marker(v):
            # presence is enough for values that are not unique markers: look for the very object first
            # (the parser hands token values through untouched), then fall back to equality
            got = 0
            for l in leaves:
                if l is v:
                    got += 1
            if got >= want:
                continue
        got = 0
        for l in leaves:
            if _same(l, v):
                got += 1
        if got < want:
            return False
        if is_marker(v) and got != want:
            return False                # unique markers: exact multiplicity (nothing invented, nothing duplicated)
    groups = []
    for v, g in expect:
        if g is not None and g not in groups:
            groups.append(g)
    for g in groups:
        members = [v for v, gg in expect if gg == g]
        pos = 0
        for l in leaves:
            if pos < len(members) and _same(l, members[pos]):
                pos += 1
        if pos != len(members):
            return False
    return True


# ---- pieces -------------------------------------------------------------------------------------------------

def oid_value(s, shape, a, b):
    """{ ... } contents: shape 0 `name a`, 1 `a b`, 2 `name sub(a) b`, 3 `iso name2 a`"""
    g = 'oid%d' % len(s.toks)
    if shape == 0:
        s.lc('~par', g).num(a, g)
    elif shape == 1:
        s.num(a, g).num(b, g)
    elif shape == 2:
        s.lc('~par', g).lc('~sub', g).lit('(').num(a, g).lit(')').num(b, g)
    else:
        s.lc('iso', g).lc('~par2', g).num(a, g)
    return s


def syntax(s, variant, a, b):
    """SYNTAX variants"""
    if variant == 0:
        s.typekw('Integer32')
    elif variant == 1:
        s.typekw('INTEGER').lit('(').num(a, 'rng').kw('..').num(b, 'rng').lit(')')
    elif variant == 2:
        s.typekw('OCTET STRING').kw('( SIZE (').num(a, 'rng').lit('|').num(b, 'rng').kw(') )')
    elif variant == 3:
        s.typekw('INTEGER').lit('{').lc('~up', 'enum').lit('(').num(a, 'enum').lit(')').lit(',') \
            .lc('~down', 'enum').lit('(').num(b, 'enum').lit(')').lit('}')
    elif variant == 4:
        s.typekw('BITS').lit('{').lc('~b0', 'bits').lit('(').num(a, 'bits').lit(')').lit('}')
    elif variant == 5:
        s.uc('~MyType')
    elif variant == 6:
        s.typekw('OBJECT IDENTIFIER')
    elif variant == 7:
        s.typekw('Counter64')
    else:
        s.uc('~MyType').lit('(').num(a, 'rng').lit(')')
    return s


def names(s, n, grp, prefix):
    for i in range(n):
        if i:
            s.lit(',')
        s.lc('%s%d' % (prefix, i), grp)
    return s


# ---- declaration families -----------------------------------------------------------------------------------

def f_value(shape, a, b):
    s = Sent()
    s.lc('~vname').kw('OBJECT IDENTIFIER ::= {')
    oid_value(s, shape, a, b)
    return s.lit('}')


def f_object_identity(ref, shape, a, b):
    s = Sent()
    s.lc('~oiname').kw('OBJECT-IDENTITY STATUS').lc('~status').kwtext('DESCRIPTION', '~descr')
    if ref:
        s.kwtext('REFERENCE', '~ref')
    s.kw('::= {')
    oid_value(s, shape, a, b)
    return s.lit('}')


def f_object_type(variant, units, access, descr, ref, idx, nidx, im0, im1, defval, dv, a, b, dialect='smiV2'):
    """idx: 0 none, 1 INDEX list of nidx entries, 2 AUGMENTS; defval: 0 none, 1 number dv, 2 label, 3 text, 4 hex,
    5 bit list, 6 empty bit list"""
    s = Sent(dialect)
    s.lc('~otname').kw('OBJECT-TYPE SYNTAX')
    syntax(s, variant, a, b)
    if units:
        s.kwtext('UNITS', '~units')
    if access:
        s.kw('MAX-ACCESS' if dialect == 'smiV2' else 'ACCESS').lc('~access')
    s.kw('STATUS').lc('~status')
    if descr:
        s.kwtext('DESCRIPTION', '~descr')
    if ref:
        s.kwtext('REFERENCE', '~ref')
    if idx == 1:
        s.kw('INDEX {')
        ims = [im0, im1, False]
        for i in range(nidx):
            if i:
                s.lit(',')
            if ims[i]:
                s.kw('IMPLIED')
            s.lc('~idx%d' % i, 'index')
        s.lit('}')
    elif idx == 2:
        s.kw('AUGMENTS {').lc('~augmented').lit('}')
    if defval:
        s.kw('DEFVAL {')
        if defval == 1:
            s.num(dv)
        elif defval == 2:
            s.lc('~label')
        elif defval == 3:
            s.val('QUOTED_STRING', '"zq dvtext"')       # a DEFVAL text keeps its quotes in the tree
        elif defval == 4:
            s.val('HEX_STRING', "'0aFF'H")
        elif defval == 5:
            s.lit('{').lc('~bit0', 'dvbits').lit(',').lc('~bit1', 'dvbits').lit('}')
        else:
            s.lit('{').lit('}')
        s.lit('}')
    s.kw('::= {')
    oid_value(s, 0, 7, 0)
    return s.lit('}')


def f_trap_type(nvars, descr, ref, number, upper):
    s = Sent('smiV1')
    s.ident('~TrapName' if upper else '~trapName').kw('TRAP-TYPE ENTERPRISE').lc('~enterprise')
    if nvars >= 0:
        s.kw('VARIABLES {')
        names(s, nvars, 'vars', '~var')
        s.lit('}')
    if descr:
        s.kwtext('DESCRIPTION', '~descr')
    if ref:
        s.kwtext('REFERENCE', '~ref')
    return s.kw('::=').num(number)


def f_notification_type(nobj, ref):
    s = Sent()
    s.lc('~ntname').kw('NOTIFICATION-TYPE')
    if nobj >= 0:
        s.kw('OBJECTS {')
        names(s, nobj, 'objs', '~obj')
        s.lit('}')
    s.kw('STATUS').lc('~status').kwtext('DESCRIPTION', '~descr')
    if ref:
        s.kwtext('REFERENCE', '~ref')
    s.kw('::= {')
    oid_value(s, 0, 5, 0)
    return s.lit('}')


def f_module_identity(nrev, subj):
    s = Sent()
    s.lc('~miname').kw('MODULE-IDENTITY')
    if subj:
        s.kw('SUBJECT-CATEGORIES {').lc('~cat', dropped=True).lit('(').num(3, dropped=True).lit(')').lit('}')
    s.kwtext('LAST-UPDATED', '~200001010000Z').kwtext('ORGANIZATION', '~org').kwtext('CONTACT-INFO', '~contact') \
        .kwtext('DESCRIPTION', '~descr')
    for i in range(nrev):
        s.kw('REVISION').text('~rev%d' % i, 'revs').kw('DESCRIPTION').text('~revd%d' % i, 'revs')
    s.kw('::= {')
    oid_value(s, 0, 1, 0)
    return s.lit('}')


def f_group(notif, n, ref):
    s = Sent()
    s.lc('~grname').kw('NOTIFICATION-GROUP NOTIFICATIONS {' if notif else 'OBJECT-GROUP OBJECTS {')
    names(s, n, 'members', '~mem')
    s.kw('} STATUS').lc('~status').kwtext('DESCRIPTION', '~descr')
    if ref:
        s.kwtext('REFERENCE', '~ref')
    s.kw('::= {')
    oid_value(s, 0, 2, 0)
    return s.lit('}')


def f_module_compliance(named, nmand, c0, c1, ncl, refine):
    """clauses: 0 GROUP, 1 OBJECT (refinements SYNTAX/WRITE-SYNTAX/MIN-ACCESS when `refine`)"""
    s = Sent()
    s.lc('~mcname').kw('MODULE-COMPLIANCE STATUS').lc('~status').kwtext('DESCRIPTION', '~descr').kw('MODULE')
    if named:
        s.uc('~OTHER-MIB')
    if nmand:
        s.kw('MANDATORY-GROUPS {')
        names(s, nmand, 'mand', '~mg')
        s.lit('}')
    kinds = [c0, c1][:ncl]
    for i, k in enumerate(kinds):
        if k == 0:
            s.kw('GROUP').lc('~cg%d' % i, 'mand').kw('DESCRIPTION').text('~cgd%d' % i, dropped=True)
        else:
            s.kw('OBJECT').lc('~co%d' % i, dropped=True)
            if refine:
                s.kw('SYNTAX Integer32 ( 0 .. 5 ) MIN-ACCESS').lc('~minacc', dropped=True)
            s.kw('DESCRIPTION').text('~cod%d' % i, dropped=True)
    s.kw('::= {')
    oid_value(s, 0, 3, 0)
    return s.lit('}')


def f_agent_capabilities(ref, supports, variation):
    s = Sent()
    s.lc('~acname').kw('AGENT-CAPABILITIES PRODUCT-RELEASE').text('~release').kw('STATUS').lc('~status') \
        .kwtext('DESCRIPTION', '~descr')
    if ref:
        s.kwtext('REFERENCE', '~ref')
    if supports:
        s.kw('SUPPORTS').uc('~SUP-MIB', dropped=True).kw('INCLUDES {').lc('~incl', dropped=True).lit('}')
        if variation:
            s.kw('VARIATION').lc('~varobj', dropped=True).kw('ACCESS').lc('~varacc', dropped=True) \
                .kw('DESCRIPTION').text('~vard', dropped=True)
    s.kw('::= {')
    oid_value(s, 0, 4, 0)
    return s.lit('}')


def f_type(form, variant, display, ref, a, b):
    """form 0 plain type assignment, 1 TEXTUAL-CONVENTION, 2 SEQUENCE, 3 CHOICE (skipped by the lexer)"""
    s = Sent()
    s.uc('~TypeName').kw('::=')
    if form == 0:
        syntax(s, variant, a, b)
    elif form == 1:
        s.kw('TEXTUAL-CONVENTION')
        if display:
            s.kwtext('DISPLAY-HINT', '~hint')
        s.kw('STATUS').lc('~status').kwtext('DESCRIPTION', '~descr')
        if ref:
            s.kwtext('REFERENCE', '~ref')
        s.kw('SYNTAX')
        syntax(s, variant, a, b)
    elif form == 2:
        s.kw('SEQUENCE {').lc('~col0', 'seq').typekw('Integer32').lit(',').lc('~col1', 'seq').typekw('OCTET STRING').lit('}')
    else:
        s.toks.extend([('CHOICE', 'CHOICE')])
    return s


def f_macro():
    s = Sent()
    s.toks.extend([('OBJECT_TYPE', 'OBJECT-TYPE'), ('MACRO', 'MACRO'), ('END', 'END')])
    return s


def module(name, nimp, nsym, modoid, exports, decls, dialect='smiV2', samefrom=False):
    """a module around declaration sentences; IMPORTS with nimp clauses of nsym symbols"""
    s = Sent(dialect)
    s.uc(name)
    if modoid:
        s.lit('{').lc('iso', 'modoid').num(3, 'modoid').lit('}')
    s.kw('DEFINITIONS ::= BEGIN')
    if exports:
        s.toks.append(('EXPORTS', 'EXPORTS'))
    if nimp:
        s.kw('IMPORTS')
        for i in range(nimp):
            for j in range(nsym):
                if j:
                    s.lit(',')
                s.lc('~imp%d-%d' % (i, j), 'imp' if samefrom else 'imp%d' % i)
            # (samefrom: several FROM clauses naming the SAME module - their symbols form one list, in source order)
            s.kw('FROM')
            if samefrom and i:
                s.toks.append(('UPPERCASE_IDENTIFIER', 'ZQFROM-0'))     # same module again: one entry in the tree
            else:
                s.uc('~FROM-0' if samefrom else '~FROM-%d' % i)
        s.lit(';')
    for d in decls:
        s.extend(d)
    s.kw('END')
    return s


def string_sites(sent):
    """indices (into sent.expect) of expectations carried by string-valued tokens"""
    out = []
    for i, w in enumerate(sent.where):
        if w is not None and sent.toks[w][0] in ('LOWERCASE_IDENTIFIER', 'UPPERCASE_IDENTIFIER', 'QUOTED_STRING'):
            out.append(i)
    return out


def substitute(sent, i, value):
    """replace the token behind expectation i by `value` (a symbolic string of the same token class)"""
    w = sent.where[i]
    ttype, old = sent.toks[w]
    leaf_old, grp = sent.expect[i]
    sent.toks[w] = (ttype, value)
    if ttype == 'QUOTED_STRING' and leaf_old != old:
        leaf = value[1:len(value) - 1]
    else:
        leaf = value
    sent.expect[i] = (leaf, grp)
    sent.pairs = [(kw, leaf if (isinstance(pl, str) and pl == leaf_old) else pl) for kw, pl in sent.pairs]
    return ttype
