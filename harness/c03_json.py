"""C03: the JSON context holds exactly the declared symbols, with the declared class/status/access/units/revisions
(TOK + XH on IntermediateCodeGen/JsonCodeGen up to the captured render call).

Real code: LR driver + all clause actions, SymtableCodeGen.genCode, IntermediateCodeGen.regSym/genCode and the
eleven clause handlers, JsonCodeGen.genCode. The template (a single `mib|tojson`) is checked statically.
"""
import itertools

from harness import tok, smimodel as m
from harness.tok import seq, QS, LC
from pysmi import error

LOWER = ['alpha', 'be-ta', 'gamma9', 'meta', 'imports', 'if', 'class', 'x', 'aB-cD-9', 'metaData', 'importsX', 'iff']
UPPER = ['MyType', 'My-Type', 'Other']
KINDS = ['valueDeclaration', 'objectIdentity', 'objectType', 'notificationType', 'moduleIdentity', 'objectGroup',
         'notificationGroup', 'moduleCompliance', 'agentCapabilities', 'typeDeclaration', 'textualConvention',
         'sequenceType', 'macro']
CLASS = dict(m.KIND_CLASS, typeDeclaration='type', textualConvention='textualconvention')


def pick(table, k):
    for i in range(len(table)):
        if k == i:
            return table[i]
    return table[0]


def decl(kind, lname, uname, arc):
    """(tokens, declared name or None, expected class)"""
    if kind in ('typeDeclaration',):
        return m.type_decl(uname, seq('Integer32 (0..5)')), uname
    if kind == 'textualConvention':
        return m.textual_convention(uname, seq('OCTET STRING')), uname
    if kind == 'sequenceType':
        return m.sequence_type(uname, [('zz1', 'Integer32')]), None
    if kind == 'macro':
        return seq('OBJECT-TYPE MACRO ::= BEGIN TYPE NOTATION ::= "x" VALUE NOTATION ::= value END'), None
    return m.oid_decl(kind, lname, m.oid('iso', 3, arc)), lname


def _json_ok(x):
    if x is None or isinstance(x, (str, int, bool)):
        return True
    if isinstance(x, dict):
        for k, v in x.items():
            if not isinstance(k, str) or not _json_ok(v):
                return False
        return True
    if isinstance(x, (list, tuple)):
        for v in x:
            if not _json_ok(v):
                return False
        return True
    return False


def _run(decls, genTexts=False):
    toks = m.module('M', [], decls)
    trees = tok.parse_tokens(toks)
    return tok.compile_trees(trees, backend='json', genTexts=genTexts)


def symbols(k0: int, k1: int, k2: int, n: int, l0: int, l1: int, l2: int, u0: int, u1: int, u2: int,
            genTexts: bool) -> bool:
    """
    requires: 0 <= k0 < 13 and 0 <= k1 < 13 and 0 <= k2 < 13 and 1 <= n <= 3
    requires: 0 <= l0 < 12 and 0 <= l1 < 12 and 0 <= l2 < 12 and 0 <= u0 < 3 and 0 <= u1 < 3 and 0 <= u2 < 3
    requires: l0 != l1 and l1 != l2 and l0 != l2 and u0 != u1 and u1 != u2 and u0 != u2
    requires: (k0 != 4) + (k1 != 4 or n < 2) + (k2 != 4 or n < 3) >= 2
    """
    ks = [k0, k1, k2][:n]
    ls = [l0, l1, l2]
    us = [u0, u1, u2]
    decls = []
    want = {}
    for i, k in enumerate(ks):
        kind = pick(KINDS, k)
        d, name = decl(kind, pick(LOWER, ls[i]), pick(UPPER, us[i]), i + 1)
        decls.append(d)
        if name is not None:
            want[name.replace('-', '_')] = CLASS[kind]
    try:
        res = _run(decls, genTexts)
    except error.PySmiError:
        return False        # every module built here is well-formed and resolvable
    ctx = res.ctx['M']
    keys = set(ctx.keys())
    if keys != set(want.keys()) | set(['imports', 'meta']):
        return False
    for name, cls in want.items():
        rec = ctx[name]
        if rec.get('class') != cls or str(rec.get('name')).replace('-', '_') != name:
            return False
    if ctx['meta'].get('module') != 'M' or ctx['imports'].get('class') != 'imports':
        return False
    return _json_ok(ctx)


STATUS_KINDS = ['objectIdentity', 'objectType', 'notificationType', 'objectGroup', 'notificationGroup',
                'moduleCompliance', 'agentCapabilities', 'textualConvention']


def lcident(s):
    """a LOWERCASE_IDENTIFIER lexeme (as the lexer defines it, minus a trailing '-')"""
    if len(s) < 1 or not ('a' <= s[0] <= 'z'):
        return False
    for c in s:
        if not (c == '-' or 'a' <= c <= 'z' or 'A' <= c <= 'Z' or '0' <= c <= '9'):
            return False
    return s[len(s) - 1] != '-'


def status_access(k: int, which: int, word: str) -> bool:
    """
    requires: 0 <= k < 8 and 0 <= which <= 1 and len(word) <= 3 and lcident(word)
    requires: which == 0 or k == 1
    """
    kind = pick(STATUS_KINDS, k)
    st = word if which == 0 else 'current'
    if kind == 'objectIdentity':
        d = m.object_identity('x', m.oid('iso', 3), status=st)
    elif kind == 'objectType':
        d = m.object_type('x', seq('Integer32'), m.oid('iso', 3), status=st, descr=m.text('d'),
                          access=(word if which == 1 else 'read-only'))
    elif kind == 'notificationType':
        d = m.notification_type('x', m.oid('iso', 3), status=st)
    elif kind == 'objectGroup':
        d = m.object_group('x', m.oid('iso', 3), ['o'], status=st)
    elif kind == 'notificationGroup':
        d = m.notification_group('x', m.oid('iso', 3), ['o'], status=st)
    elif kind == 'moduleCompliance':
        d = m.module_compliance('x', m.oid('iso', 3), status=st)
    elif kind == 'agentCapabilities':
        d = m.agent_capabilities('x', m.oid('iso', 3), status=st)
    else:
        d = m.textual_convention('X', seq('Integer32'), status=st)
    other = m.object_type('y', seq('Integer32'), m.oid('iso', 4), status='obsolete', access='read-write', descr=m.text('d'))
    try:
        res = _run([d, other])
    except error.PySmiError:
        return False
    ctx = res.ctx['M']
    rec = ctx['X' if kind == 'textualConvention' else 'x']
    if rec.get('status') != st:
        return False
    if kind == 'objectType' and rec.get('maxaccess') != (word if which == 1 else 'read-only'):
        return False
    # the neighbour keeps ITS data
    return ctx['y']['status'] == 'obsolete' and ctx['y']['maxaccess'] == 'read-write'


def quoted(v):
    if len(v) < 2 or v[0] != '"' or v[len(v) - 1] != '"':
        return False
    for c in v[1:len(v) - 1]:
        if c == '"':
            return False
    return True


def units(v: str, genTexts: bool) -> bool:
    """
    requires: len(v) <= 5 and quoted(v)
    """
    d = m.object_type('x', seq('Integer32'), m.oid('iso', 3), units=QS(v), descr=m.text('d'))
    try:
        res = tok.compile_trees(tok.parse_tokens(m.module('M', [], [d])), backend='json', genTexts=genTexts,
                                textFilter=lambda kind, text: text)
    except error.PySmiError:
        return False
    rec = res.ctx['M']['x']
    inner = v[1:len(v) - 1]
    if inner == '':
        return 'units' not in rec or rec['units'] == ''
    return rec.get('units') == inner


TIMES = [('"200001010000Z"', '2000-01-01 00:00'), ('"9912312359Z"', '1999-12-31 23:59'), ('"202402291200Z"', '2024-02-29 12:00')]


def revisions(n: int, t0: int, t1: int, t2: int, genTexts: bool) -> bool:
    """
    requires: 0 <= n <= 3 and 0 <= t0 < 3 and 0 <= t1 < 3 and 0 <= t2 < 3
    """
    ts = [pick(TIMES, t) for t in (t0, t1, t2)][:n]
    revs = [(t[0], m.text('rev %d' % i)) for i, t in enumerate(ts)]
    d = m.module_identity('mi', m.oid('iso', 3), last='"200202020000Z"', revisions=revs)
    try:
        res = _run([d], genTexts)
    except error.PySmiError:
        return False
    rec = res.ctx['M']['mi']
    got = rec.get('revisions', [])
    if len(got) != n:
        return False
    for g, t, i in zip(got, ts, range(n)):
        if g['revision'] != t[1] or g['description'] != 'rev %d' % i:
            return False
    # the per-module summary carries the latest (first listed) revision
    info = res.info['M']
    if n:
        return info.revision == ts[0][1]
    return True


def conditions(prop, tier):
    q = tier == 'quick'
    t = 280 if q else 1500
    out = []
    # full kind matrix with plain / hyphenated names
    out.append(dict(name='C03.symbols.kinds2', fn='symbols', fixed=dict(n=2, k2=0, l0=0, l1=1, l2=2, u0=0, u1=1, u2=2, genTexts=False),
                    timeout=t, bounds='2 declarations: every ordered pair of the 13 kinds (11 declaration kinds incl. TC + SEQUENCE type + MACRO), '
                                      'one plain and one hyphenated name'))
    if not q:
        for k2 in range(13):
            out.append(dict(name='C03.symbols.kinds3-%d' % k2, fn='symbols', fixed=dict(n=3, k2=k2, l0=0, l1=1, l2=2, u0=0, u1=1, u2=2, genTexts=True),
                            timeout=t, bounds='3 declarations: every ordered pair of kinds followed by kind %d' % k2))
    # names: every ordered pair from the pool, on value declarations / object types / types
    for kk in ((0, 2), (2, 9)) if q else ((0, 2), (2, 9), (1, 3), (5, 7), (10, 8)):
        out.append(dict(name='C03.symbols.names-%d-%d' % kk, fn='symbols',
                        fixed=dict(n=2, k0=kk[0], k1=kk[1], k2=0, l2=2, u2=2, genTexts=False), timeout=t,
                        extra_pre=['l0 != 2 and l1 != 2 and u0 != 2 and u1 != 2'],
                        bounds='2 declarations of kinds %d,%d; names: every ordered pair from %r (types: %r)' % (kk[0], kk[1], LOWER, UPPER)))
    # every kind that carries a STATUS (quick: one-letter words for all but the object type)
    for k, which in [(k, 0) for k in range(8)] + [(1, 1)]:
        out.append(dict(name='C03.status-access.k%d-w%d' % (k, which), fn='status_access', fixed=dict(k=k, which=which), timeout=t,
                        extra_pre=['len(word) <= %d' % ((2 if k == 1 else 1) if q else 3)],
                        bounds='%s word on kind %s: ONE symbolic identifier string len<=%d; a neighbouring declaration must keep its own data'
                               % ('MAX-ACCESS' if which else 'STATUS', STATUS_KINDS[k], ((2 if k == 1 else 1) if q else 3))))
    # node types (table / row / column / scalar) are part of each symbol's record: the table model of C06 is reused
    for hs, hy in ((True, False), (True, True)):
        out.append(dict(name='C03.nodetype.table-s%d-h%d' % (hs, hy), module='harness.c06_refs', fn='table',
                        fixed=dict(ncols=2, nidx=1, has_seq=hs, hy=hy, x1=0, x2=0, im1=False, im2=False), timeout=t,
                        extra_pre=['order < 24'] if not q else ['order % 4 == 0'],
                        bounds='table with 2 columns (plain / hyphenated names): table, row, column and scalar node types for every placement of the '
                               'SEQUENCE type relative to table, row and columns (quick: every 4th of the 24 orders)'))
    out.append(dict(name='C03.units', fn='units', fixed={}, timeout=t,
                    bounds='UNITS text: one symbolic quoted string, len<=5 incl. quotes, identity text filter'))
    out.append(dict(name='C03.revisions', fn='revisions', fixed={}, timeout=t,
                    bounds='0..3 REVISION clauses with times picked by symbolic index from %d UTC time strings' % len(TIMES)))
    return out


def selftests(prop):
    return [('symbols', dict(k0=2, k1=9, k2=11, n=3, l0=0, l1=1, l2=2, u0=0, u1=1, u2=2, genTexts=True)),
            ('symbols', dict(k0=12, k1=4, k2=0, n=2, l0=0, l1=1, l2=2, u0=0, u1=1, u2=2, genTexts=False)),
            ('status_access', dict(k=1, which=1, word='rw')),
            ('units', dict(v='"s"', genTexts=False)),
            ('revisions', dict(n=2, t0=0, t1=1, t2=2, genTexts=False))]


def solver_obligations(prop, tier, ctx):
    """static fact about the JSON template: its only output is `mib|tojson(...)` (so a JSON-serialisable context
    yields a syntactically valid document). Not a solver query; recorded as a side condition."""
    import os
    import jinja2
    from jinja2 import nodes
    path = os.path.join(ctx['repo'], 'pysmi/codegen/templates/jsondoc/base.j2')
    rec = dict(cond='C03.template-is-tojson', fn='pysmi/codegen/templates/jsondoc/base.j2', paths=0, queries=0,
               bounds='static check of the Jinja AST', verdict='STATIC')
    try:
        ast = jinja2.Environment().parse(open(path).read())
        outs = [n for n in ast.find_all(nodes.Output)]
        exprs = []
        for o in outs:
            for e in o.nodes:
                if isinstance(e, nodes.TemplateData):
                    if e.data.strip():
                        exprs.append('text')
                elif isinstance(e, nodes.Filter) and e.name == 'tojson' and isinstance(e.node, nodes.Name) and e.node.name == 'mib':
                    exprs.append('tojson')
                else:
                    exprs.append('other')
        if exprs == ['tojson']:
            rec.update(status='held', confirmed_paths=1)
        else:
            rec.update(status='inconclusive', reason='template output is not a single mib|tojson: %r' % exprs)
    except Exception as e:
        rec.update(status='inconclusive', reason='cannot analyse template: %s' % e)
    return [rec]


def kf_names(which, n, k0, k1, k2, l0, l1, l2):
    """carve-outs of the known findings about names: which=0 'meta'/'imports' (reserved JSON keys), which=1 Python keywords;
    true when one of the first n declarations is a lower-case-named kind carrying such a name"""
    bad = (3, 4) if which == 0 else (5, 6)
    ks, ls = [k0, k1, k2], [l0, l1, l2]
    for i in range(n):
        if ks[i] < 9 and ls[i] in bad:
            return True
    return False
