"""C13: the file writers are atomic under single I/O faults; dry-run touches nothing.

Real code executed symbolically: FileWriter.putData, PyFileWriter.putData, CallbackWriter.putData
(pysmi/writer/localfile.py, pyfile.py, callback.py), pysmi.compat.encode/decode.
Stubs (harness/envstubs.py): os, os.path, tempfile, py_compile replaced in the writer modules' namespaces
by an in-memory file system with a single-fault schedule.

Symbolic: k (index of the faulting call, 0 = none), kind (1 error, 2 short write), shortn (bytes accepted by
the short write), destination/directory present, comments, dryRun, byte-compile outcome, and the module text
`data` (symbolic str, len <= N, any character but lone surrogates).
"""
from pysmi.writer import localfile, pyfile, callback
from pysmi import error
from harness.envstubs import ModelFS, FakeOs, FakeTempfile, FakePyCompile

OLD = b'OLD-CONTENT'
COMMENTS = ('c1', 'c2')


# texts of 0..8 bytes mixing 1-, 2-, 3- and 4-byte characters (character count != byte count)
DATA = ['', 'a', '\xe9', 'a\u20acb', '\U0001F600\U0001F600']


def pick(di):
    for i in range(len(DATA)):
        if di == i:
            return DATA[i]
    return DATA[0]


def nosurrogate(s):
    for ch in s:
        if 0xD800 <= ord(ch) <= 0xDFFF:
            return False
    return True


def expected_bytes(data, with_comments):
    text = data
    if with_comments:
        text = '#\n' + '# c1\n' + '# c2\n' + '#\n' + data
    return text.encode('utf-8')


def _setup(k, kind, shortn, dest_exists, dir_exists, dest):
    fs = ModelFS(fault_at=k, kind=kind, shortn=shortn)
    if dir_exists:
        fs.dirs.add('/d')
        if dest_exists:
            fs.files[dest] = OLD
    return fs


def _judge(fs, dest, old, new, outcome, dryRun, may_remove):
    """outcome: 'ok' | 'writer-error' | 'other-exception'"""
    if outcome == 'other-exception':
        return False
    if dryRun:
        return outcome == 'ok' and fs.nmut == 0 and fs.files == ({dest: old} if old is not None else {})
    for p in fs.files:
        if p != dest:
            return False                       # temporary (or any other) file left behind
    cur = fs.files.get(dest)
    if outcome == 'ok':
        return cur == new                      # a normal return means the full text is on disk
    # failure: previous complete content or complete new content (or, after a byte-compile failure, removed)
    if cur is None:
        return old is None or may_remove
    return cur == old or cur == new


def put_file(k: int, kind: int, shortn: int, dest_exists: bool, dir_exists: bool, with_comments: bool,
             dryRun: bool, di: int, data: str) -> bool:
    """
    requires: 0 <= k <= 8 and 1 <= kind <= 2 and 0 <= shortn <= 40
    requires: len(data) <= 5 and nosurrogate(data) and -1 <= di < len(DATA)
    requires: dir_exists or not dest_exists
    """
    if di >= 0:
        data = pick(di)
    dest = '/d/M.json'
    fs = _setup(k, kind, shortn, dest_exists, dir_exists, dest)
    old = fs.files.get(dest)
    localfile.os = FakeOs(fs)
    localfile.tempfile = FakeTempfile(fs)
    w = localfile.FileWriter('/d').setOptions(suffix='.json')
    new = expected_bytes(data, with_comments)
    try:
        w.putData('M', data, comments=COMMENTS if with_comments else (), dryRun=dryRun)
        outcome = 'ok'
    except error.PySmiWriterError:
        outcome = 'writer-error'
    except Exception:
        outcome = 'other-exception'
    return _judge(fs, dest, old, new, outcome, dryRun, False)


def put_py(k: int, kind: int, shortn: int, dest_exists: bool, dir_exists: bool, with_comments: bool,
           dryRun: bool, pyc: int, di: int, data: str) -> bool:
    """
    requires: 0 <= k <= 8 and 1 <= kind <= 2 and 0 <= shortn <= 40 and 0 <= pyc <= 4
    requires: len(data) <= 5 and nosurrogate(data) and -1 <= di < len(DATA)
    requires: dir_exists or not dest_exists
    """
    if di >= 0:
        data = pick(di)
    dest = '/d/M.py'
    fs = _setup(k, kind, shortn, dest_exists, dir_exists, dest)
    old = fs.files.get(dest)
    pyfile.os = FakeOs(fs)
    pyfile.tempfile = FakeTempfile(fs)
    pyfile.py_compile = FakePyCompile(fs, pyc)
    w = pyfile.PyFileWriter('/d')
    if pyc == 4:
        w.setOptions(pyCompile=False)
    new = expected_bytes(data, with_comments)
    try:
        w.putData('M', data, comments=COMMENTS if with_comments else (), dryRun=dryRun)
        outcome = 'ok'
    except error.PySmiWriterError:
        outcome = 'writer-error'
    except Exception:
        outcome = 'other-exception'
    if outcome == 'ok' and not dryRun and pyc == 3:
        return False                            # a byte-compile crash must surface as the writer error
    return _judge(fs, dest, old, new, outcome, dryRun, pyc == 3)


def put_cb(fails: bool, dryRun: bool, data: str) -> bool:
    """
    requires: len(data) <= 5
    """
    got = []

    def cb(name, text, ctx):
        got.append((name, text, ctx))
        if fails:
            raise ValueError('user callback failure')

    w = callback.CallbackWriter(cb, cbCtx='ctx')
    try:
        w.putData('M', data, dryRun=dryRun)
        outcome = 'ok'
    except error.PySmiWriterError:
        outcome = 'writer-error'
    except Exception:
        outcome = 'other-exception'
    if dryRun:
        return outcome == 'ok' and not got
    if len(got) != 1 or got[0][0] != 'M' or got[0][1] != data or got[0][2] != 'ctx':
        return False
    return outcome == ('writer-error' if fails else 'ok')


# ---- concurrent writers of the same module (the "schedules" part of the quantifier) -----------------------------------
# Two real putData() calls run in two threads over one shared file-system model. Every system call of the model is a
# yield point; between two yield points exactly one thread runs. Which thread proceeds at each point where both are
# runnable is decided by the SYMBOLIC schedule bits b0..b15 in the (traced) main thread, so CrossHair/z3 explore every
# interleaving of the two call sequences; the worker threads themselves handle concrete data only.
import threading


class _Abort(BaseException):
    pass


class Sched(object):
    def __init__(self):
        self.cv = threading.Condition()
        self.turn = None
        self.waiting = {}
        self.done = {}
        self.abort = False
        self.order = []
        self.inject = None

    def point(self, op, faultable=False):
        tid = getattr(threading.current_thread(), 'verif_tid', None)
        if tid is None:
            return                      # main thread (set-up / judging): not scheduled
        with self.cv:
            self.waiting[tid] = (op, faultable)
            self.cv.notify_all()
            while self.turn != tid and not self.abort:
                self.cv.wait(5.0)
            if self.abort:
                raise _Abort()
            self.turn = None
            del self.waiting[tid]
            self.order.append((tid, op))
            inj, self.inject = self.inject, None
            return inj

    def finish(self, tid, outcome):
        with self.cv:
            self.done[tid] = outcome
            self.cv.notify_all()


def _race(make_writer, datas, comments, fs, bits, k=0, kind=1, shortn=0):
    """run len(datas) putData('M', ...) calls concurrently under the schedule `bits`; returns outcomes by thread.
    The single fault (k-th faultable system call of the combined sequence) is decided HERE, in the traced main thread:
    symbolic values never reach the worker threads."""
    s = Sched()
    nfaultable = 0
    sn = 0
    for v in range(1, 4):
        if shortn == v:
            sn = v
    fs.shortn = sn
    n = len(datas)

    def work(tid):
        try:
            make_writer().putData('M', datas[tid], comments=comments)
            out = 'ok'
        except error.PySmiWriterError:
            out = 'writer-error'
        except _Abort:
            out = 'aborted'
        except Exception as exc:
            out = 'other-exception %r' % (exc,)
        s.finish(tid, out)

    ts = []
    for tid in range(n):
        t = threading.Thread(target=work, args=(tid,))
        t.daemon = True
        t.verif_tid = tid
        ts.append(t)
    fs.sched = s
    i = 0
    ok = False
    try:
        for t in ts:
            t.start()
        while True:
            with s.cv:
                guard = 0
                while len(s.waiting) + len(s.done) < n:
                    s.cv.wait(5.0)
                    guard += 1
                    if guard > 6:
                        raise RuntimeError('scheduler stalled')
                if len(s.done) == n:
                    break
                runnable = sorted(s.waiting)
            if len(runnable) == 2:
                if i >= len(bits):
                    raise RuntimeError('schedule longer than the %d decision bits' % len(bits))
                pick = runnable[1] if bits[i] else runnable[0]      # symbolic decision (main thread, traced)
                i += 1
            else:
                pick = runnable[0]
            with s.cv:
                if s.waiting[pick][1]:
                    nfaultable += 1
                    if nfaultable == k:
                        s.inject = 'error' if kind == 1 else 'short'
                s.turn = pick
                s.cv.notify_all()
                guard = 0
                while s.turn is not None:
                    s.cv.wait(5.0)
                    guard += 1
                    if guard > 6:
                        raise RuntimeError('scheduler stalled')
        ok = True
    finally:
        if not ok:
            with s.cv:
                s.abort = True
                s.cv.notify_all()
        for t in ts:
            t.join(10.0)
        fs.sched = None
    return [s.done[t] for t in range(n)], s.order


RACE_DATA = [('a\u20acb', 'XY'), ('same', 'same'), ('', 'longer-text-of-the-other-writer')]


def _race_judge(fs, dest, old, news, outs, may_remove):
    for o in outs:
        if o not in ('ok', 'writer-error'):
            return False
    for p in fs.files:
        if p != dest:
            return False                        # a temporary file survived the race
    cur = fs.files.get(dest)
    if cur is None:
        # nothing under the module's name: only if nobody succeeded (or a byte-compile failure removed it)
        return may_remove or (old is None and 'ok' not in outs)
    if 'ok' in outs:
        return cur in news                      # complete text of ONE of the writers, never a mixture
    return cur == old or cur in news


def race_file(b0: bool, b1: bool, b2: bool, b3: bool, b4: bool, b5: bool, b6: bool, b7: bool, b8: bool, b9: bool,
              b10: bool, b11: bool, b12: bool, b13: bool, b14: bool, b15: bool,
              k: int, kind: int, shortn: int, dest_exists: bool, dir_exists: bool, di: int) -> bool:
    """
    requires: 0 <= k <= 14 and 1 <= kind <= 2 and 0 <= shortn <= 3 and 0 <= di < len(RACE_DATA)
    requires: dir_exists or not dest_exists
    """
    dest = '/d/M.json'
    fs = _setup(0, 1, 0, dest_exists, dir_exists, dest)
    old = fs.files.get(dest)
    localfile.os = FakeOs(fs)
    localfile.tempfile = FakeTempfile(fs)
    datas = RACE_DATA[0]
    for j in range(len(RACE_DATA)):
        if di == j:
            datas = RACE_DATA[j]
    news = [expected_bytes(d, False) for d in datas]
    outs, order = _race(lambda: localfile.FileWriter('/d').setOptions(suffix='.json'), datas, (), fs,
                        [b0, b1, b2, b3, b4, b5, b6, b7, b8, b9, b10, b11, b12, b13, b14, b15], k, kind, shortn)
    return _race_judge(fs, dest, old, news, outs, False)


def race_py(b0: bool, b1: bool, b2: bool, b3: bool, b4: bool, b5: bool, b6: bool, b7: bool, b8: bool, b9: bool,
            b10: bool, b11: bool, b12: bool, b13: bool, b14: bool, b15: bool,
            k: int, kind: int, shortn: int, dest_exists: bool, dir_exists: bool, pyc: int, di: int) -> bool:
    """
    requires: 0 <= k <= 14 and 1 <= kind <= 2 and 0 <= shortn <= 3 and 0 <= di < len(RACE_DATA)
    requires: dir_exists or not dest_exists
    requires: pyc == 0 or pyc == 3 or pyc == 4
    """
    dest = '/d/M.py'
    fs = _setup(0, 1, 0, dest_exists, dir_exists, dest)
    old = fs.files.get(dest)
    pyfile.os = FakeOs(fs)
    pyfile.tempfile = FakeTempfile(fs)
    pyfile.py_compile = FakePyCompile(fs, pyc)
    datas = RACE_DATA[0]
    for j in range(len(RACE_DATA)):
        if di == j:
            datas = RACE_DATA[j]
    news = [expected_bytes(d, False) for d in datas]

    def mk():
        w = pyfile.PyFileWriter('/d')
        if pyc == 4:
            w.setOptions(pyCompile=False)
        return w

    outs, order = _race(mk, datas, (), fs, [b0, b1, b2, b3, b4, b5, b6, b7, b8, b9, b10, b11, b12, b13, b14, b15], k, kind, shortn)
    return _race_judge(fs, dest, old, news, outs, pyc == 3)


def conditions(prop, tier):
    n = 3 if tier == 'quick' else 5
    out = []
    t = 250 if tier == 'quick' else 1500
    FB = ('fault site k<=8 symbolic, short-write byte count symbolic, destination/directory present symbolic, dryRun '
          'symbolic, text picked by symbolic index from %r' % (DATA,))
    CB = 'no fault; destination/directory/dryRun/comments symbolic; text: symbolic str len<=%d, any character but lone surrogates' % n
    for kind in (1, 2):
        for wc in (False, True):
            tag = 'fault-k%d-c%d' % (kind, wc)
            out.append(dict(name='C13.FileWriter.%s' % tag, fn='put_file', fixed=dict(kind=kind, with_comments=wc, data=''),
                            extra_pre=['di >= 0'], timeout=t, bounds=FB))
            out.append(dict(name='C13.PyFileWriter.%s' % tag, fn='put_py', fixed=dict(kind=kind, with_comments=wc, data=''),
                            extra_pre=['di >= 0'], timeout=t,
                            bounds=FB + '; byte-compile outcome in {ok, SyntaxError, PyCompileError, other exception, disabled}'))
    out.append(dict(name='C13.FileWriter.content', fn='put_file', fixed=dict(k=0, kind=1, shortn=0, di=-1),
                    extra_pre=['len(data) <= %d' % n], timeout=t, bounds=CB))
    out.append(dict(name='C13.PyFileWriter.content', fn='put_py', fixed=dict(k=0, kind=1, shortn=0, di=-1, pyc=0),
                    extra_pre=['len(data) <= %d' % n], timeout=t, bounds=CB))
    out.append(dict(name='C13.CallbackWriter', fn='put_cb', fixed=dict(), extra_pre=['len(data) <= %d' % n], timeout=t,
                    bounds='callback raises or not, dryRun, data len<=%d' % n))
    RB = ('two concurrent putData() of the same module over one file-system model; every system call is a yield point; '
          'all interleavings via 16 symbolic schedule bits; ')
    for di in range(len(RACE_DATA)):
        for de in (False, True):
            out.append(dict(name='C13.race.FileWriter.nofault.d%d.e%d' % (di, de), fn='race_file',
                            fixed=dict(k=0, kind=1, shortn=0, di=di, dest_exists=de, dir_exists=True), timeout=t,
                            bounds=RB + 'no fault; texts %r' % (RACE_DATA[di],)))
    out.append(dict(name='C13.race.FileWriter.nodir', fn='race_file',
                    fixed=dict(k=0, kind=1, shortn=0, di=0, dest_exists=False, dir_exists=False), timeout=t,
                    bounds=RB + 'destination directory missing (makedirs race); no fault'))
    # single fault at the k-th faultable system call of the combined sequence, sharded by k (and by the first schedule bit)
    for kind in (1, 2):
        for lo, hi in ((1, 3), (4, 5), (6, 7), (8, 10), (11, 14)):
            for b0 in (False, True):
                out.append(dict(name='C13.race.FileWriter.fault-k%d.%d-%d.s%d' % (kind, lo, hi, b0), fn='race_file',
                                fixed=dict(kind=kind, di=0, dir_exists=True, dest_exists=True, b0=b0),
                                extra_pre=['%d <= k <= %d' % (lo, hi)] + (['shortn <= 1'] if kind == 2 else ['shortn == 0']),
                                timeout=t * 2, bounds=RB + 'one fault (%s) at the k-th system call of the combined sequence, %d<=k<=%d symbolic'
                                % ('error' if kind == 1 else 'short write of 0..1 bytes', lo, hi)))
    out.append(dict(name='C13.race.PyFileWriter.nofault.pyc0', fn='race_py',
                    fixed=dict(k=0, kind=1, shortn=0, di=0, dest_exists=True, dir_exists=True, pyc=0), timeout=t,
                    bounds=RB + 'no I/O fault; byte-compile ok'))
    for b0 in (False, True):
        for b1 in (False, True):
            out.append(dict(name='C13.race.PyFileWriter.nofault.pyc3.s%d%d' % (b0, b1), fn='race_py',
                            fixed=dict(k=0, kind=1, shortn=0, di=0, dest_exists=True, dir_exists=True, pyc=3, b0=b0, b1=b1), timeout=t * 2,
                            bounds=RB + 'no I/O fault; byte-compilation crashes in both writers (clean-up race)'))
    if tier != 'quick':
        for lo, hi in ((1, 3), (4, 5), (6, 7), (8, 10), (11, 14)):
            for b0 in (False, True):
                out.append(dict(name='C13.race.PyFileWriter.fault-k1.%d-%d.s%d' % (lo, hi, b0), fn='race_py',
                                fixed=dict(kind=1, shortn=0, di=0, dir_exists=True, dest_exists=True, pyc=0, b0=b0),
                                extra_pre=['%d <= k <= %d' % (lo, hi)],
                                timeout=t * 2, bounds=RB + 'one fault at the k-th system call of the combined sequence'))
    return out


def selftests(prop):
    return [('put_file', dict(k=0, kind=1, shortn=0, dest_exists=True, dir_exists=True, with_comments=True, dryRun=False, di=-1, data='ab\u20ac')),
            ('put_file', dict(k=1, kind=1, shortn=0, dest_exists=False, dir_exists=False, with_comments=False, dryRun=False, di=3, data='')),
            ('put_py', dict(k=0, kind=1, shortn=0, dest_exists=False, dir_exists=True, with_comments=False, dryRun=False, pyc=1, di=-1, data='x')),
            ('put_py', dict(k=0, kind=1, shortn=0, dest_exists=False, dir_exists=True, with_comments=False, dryRun=True, pyc=0, di=4, data='')),
            ('put_cb', dict(fails=True, dryRun=False, data='x')),
            ('race_file', dict(dict(('b%d' % i, i % 2 == 0) for i in range(16)), k=0, kind=1, shortn=0, dest_exists=True, dir_exists=True, di=0)),
            ('race_py', dict(dict(('b%d' % i, i % 3 == 0) for i in range(16)), k=0, kind=1, shortn=0, dest_exists=False, dir_exists=False, pyc=0, di=2))]
