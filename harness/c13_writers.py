"""C13: the file writers are atomic under single I/O faults; dry-run touches nothing.

Real code executed symbolically: FileWriter.putData, PyFileWriter.putData, CallbackWriter.putData
(pysmi/writer/localfile.py, pyfile.py, callback.py), pysmi.compat.encode/decode.
Stubs (harness/envstubs.py): os, os.path, tempfile, py_compile replaced in the writer modules' namespaces
by an in-memory file system with a single-fault schedule.

Symbolic: k (index of the faulting call, 0 = none), kind (1 error, 2 short write), shortn (bytes accepted by
the short write), destination/directory present, comments, dryRun, byte-compile outcome, and the module text
`data` (symbolic str, len <= N, any character but lone surrogates).
"""
from pysmi.writer import localfile, pyfile, callback
from pysmi import error
from harness.envstubs import ModelFS, FakeOs, FakeTempfile, FakePyCompile

OLD = b'OLD-CONTENT'
COMMENTS = ('c1', 'c2')


# texts of 0..8 bytes mixing 1-, 2-, 3- and 4-byte characters (character count != byte count)
DATA = ['', 'a', '\xe9', 'a\u20acb', '\U0001F600\U0001F600']


def pick(di):
    for i in range(len(DATA)):
        if di == i:
            return DATA[i]
    return DATA[0]


def nosurrogate(s):
    for ch in s:
        if 0xD800 <= ord(ch) <= 0xDFFF:
            return False
    return True


def expected_bytes(data, with_comments):
    text = data
    if with_comments:
        text = '#\n' + '# c1\n' + '# c2\n' + '#\n' + data
    return text.encode('utf-8')


def _setup(k, kind, shortn, dest_exists, dir_exists, dest):
    fs = ModelFS(fault_at=k, kind=kind, shortn=shortn)
    if dir_exists:
        fs.dirs.add('/d')
        if dest_exists:
            fs.files[dest] = OLD
    return fs


def _judge(fs, dest, old, new, outcome, dryRun, may_remove):
    """outcome: 'ok' | 'writer-error' | 'other-exception'"""
    if outcome == 'other-exception':
        return False
    if dryRun:
        return outcome == 'ok' and fs.nmut == 0 and fs.files == ({dest: old} if old is not None else {})
    for p in fs.files:
        if p != dest:
            return False                       # temporary (or any other) file left behind
    cur = fs.files.get(dest)
    if outcome == 'ok':
        return cur == new                      # a normal return means the full text is on disk
    # failure: previous complete content or complete new content (or, after a byte-compile failure, removed)
    if cur is None:
        return old is None or may_remove
    return cur == old or cur == new


def put_file(k: int, kind: int, shortn: int, dest_exists: bool, dir_exists: bool, with_comments: bool,
             dryRun: bool, di: int, data: str) -> bool:
    """
    requires: 0 <= k <= 8 and 1 <= kind <= 2 and 0 <= shortn <= 40
    requires: len(data) <= 5 and nosurrogate(data) and -1 <= di < len(DATA)
    requires: dir_exists or not dest_exists
    """
    if di >= 0:
        data = pick(di)
    dest = '/d/M.json'
    fs = _setup(k, kind, shortn, dest_exists, dir_exists, dest)
    old = fs.files.get(dest)
    localfile.os = FakeOs(fs)
    localfile.tempfile = FakeTempfile(fs)
    w = localfile.FileWriter('/d').setOptions(suffix='.json')
    new = expected_bytes(data, with_comments)
    try:
        w.putData('M', data, comments=COMMENTS if with_comments else (), dryRun=dryRun)
        outcome = 'ok'
    except error.PySmiWriterError:
        outcome = 'writer-error'
    except Exception:
        outcome = 'other-exception'
    return _judge(fs, dest, old, new, outcome, dryRun, False)


def put_py(k: int, kind: int, shortn: int, dest_exists: bool, dir_exists: bool, with_comments: bool,
           dryRun: bool, pyc: int, di: int, data: str) -> bool:
    """
    requires: 0 <= k <= 8 and 1 <= kind <= 2 and 0 <= shortn <= 40 and 0 <= pyc <= 4
    requires: len(data) <= 5 and nosurrogate(data) and -1 <= di < len(DATA)
    requires: dir_exists or not dest_exists
    """
    if di >= 0:
        data = pick(di)
    dest = '/d/M.py'
    fs = _setup(k, kind, shortn, dest_exists, dir_exists, dest)
    old = fs.files.get(dest)
    pyfile.os = FakeOs(fs)
    pyfile.tempfile = FakeTempfile(fs)
    pyfile.py_compile = FakePyCompile(fs, pyc)
    w = pyfile.PyFileWriter('/d')
    if pyc == 4:
        w.setOptions(pyCompile=False)
    new = expected_bytes(data, with_comments)
    try:
        w.putData('M', data, comments=COMMENTS if with_comments else (), dryRun=dryRun)
        outcome = 'ok'
    except error.PySmiWriterError:
        outcome = 'writer-error'
    except Exception:
        outcome = 'other-exception'
    if outcome == 'ok' and not dryRun and pyc == 3:
        return False                            # a byte-compile crash must surface as the writer error
    return _judge(fs, dest, old, new, outcome, dryRun, pyc == 3)


def put_cb(fails: bool, dryRun: bool, data: str) -> bool:
    """
    requires: len(data) <= 5
    """
    got = []

    def cb(name, text, ctx):
        got.append((name, text, ctx))
        if fails:
            raise ValueError('user callback failure')

    w = callback.CallbackWriter(cb, cbCtx='ctx')
    try:
        w.putData('M', data, dryRun=dryRun)
        outcome = 'ok'
    except error.PySmiWriterError:
        outcome = 'writer-error'
    except Exception:
        outcome = 'other-exception'
    if dryRun:
        return outcome == 'ok' and not got
    if len(got) != 1 or got[0][0] != 'M' or got[0][1] != data or got[0][2] != 'ctx':
        return False
    return outcome == ('writer-error' if fails else 'ok')


def conditions(prop, tier):
    n = 3 if tier == 'quick' else 5
    out = []
    t = 250 if tier == 'quick' else 1500
    FB = ('fault site k<=8 symbolic, short-write byte count symbolic, destination/directory present symbolic, dryRun '
          'symbolic, text picked by symbolic index from %r' % (DATA,))
    CB = 'no fault; destination/directory/dryRun/comments symbolic; text: symbolic str len<=%d, any character but lone surrogates' % n
    for kind in (1, 2):
        for wc in (False, True):
            tag = 'fault-k%d-c%d' % (kind, wc)
            out.append(dict(name='C13.FileWriter.%s' % tag, fn='put_file', fixed=dict(kind=kind, with_comments=wc, data=''),
                            extra_pre=['di >= 0'], timeout=t, bounds=FB))
            out.append(dict(name='C13.PyFileWriter.%s' % tag, fn='put_py', fixed=dict(kind=kind, with_comments=wc, data=''),
                            extra_pre=['di >= 0'], timeout=t,
                            bounds=FB + '; byte-compile outcome in {ok, SyntaxError, PyCompileError, other exception, disabled}'))
    out.append(dict(name='C13.FileWriter.content', fn='put_file', fixed=dict(k=0, kind=1, shortn=0, di=-1),
                    extra_pre=['len(data) <= %d' % n], timeout=t, bounds=CB))
    out.append(dict(name='C13.PyFileWriter.content', fn='put_py', fixed=dict(k=0, kind=1, shortn=0, di=-1, pyc=0),
                    extra_pre=['len(data) <= %d' % n], timeout=t, bounds=CB))
    out.append(dict(name='C13.CallbackWriter', fn='put_cb', fixed=dict(), extra_pre=['len(data) <= %d' % n], timeout=t,
                    bounds='callback raises or not, dryRun, data len<=%d' % n))
    return out


def selftests(prop):
    return [('put_file', dict(k=0, kind=1, shortn=0, dest_exists=True, dir_exists=True, with_comments=True, dryRun=False, di=-1, data='ab\u20ac')),
            ('put_file', dict(k=1, kind=1, shortn=0, dest_exists=False, dir_exists=False, with_comments=False, dryRun=False, di=3, data='')),
            ('put_py', dict(k=0, kind=1, shortn=0, dest_exists=False, dir_exists=True, with_comments=False, dryRun=False, pyc=1, di=-1, data='x')),
            ('put_py', dict(k=0, kind=1, shortn=0, dest_exists=False, dir_exists=True, with_comments=False, dryRun=True, pyc=0, di=4, data='')),
            ('put_cb', dict(fails=True, dryRun=False, data='x'))]
