"""C03 (engine EXEC): the TEXT rendered by the real JSON template is syntactically valid JSON and decodes to exactly the
context that the symbolic C03 conditions establish facts about - for every solver-explored shape of those conditions."""
from harness.c03_json import *          # noqa: F401,F403
from harness import c03_json as _b, execpy

execpy.install(globals(), _b, ['symbols', 'revisions'], ('json',))

X = 'the real jsondoc template rendered and json.loads()-ed concretely on every solver-explored shape; '


def conditions(prop, tier):
    q = tier == 'quick'
    t = 280 if q else 1500
    out = []
    for k0 in range(13):
        if q and k0 % 2:
            continue
        out.append(dict(name='C03.exec.symbols.k%d' % k0, fn='x_symbols', fixed=dict(k0=k0), timeout=t,
                        extra_pre=['n <= 2', 'l0 == 0 and 1 <= l1 <= 2 and l2 == 11 and u0 == 0 and u1 == 1 and u2 == 2', 'genTexts'] if q else ['l0 == 0 and 1 <= l1 <= 3 and l2 == 11 and u0 == 0 and u1 == 1 and u2 == 2'],
                        bounds=X + '1-%d declarations, first of kind %d, every kind for the others, names from the pool: valid JSON equal to the context' % (2 if q else 3, k0)))
    out.append(dict(name='C03.exec.revisions', fn='x_revisions', fixed={}, timeout=t,
                    bounds=X + 'MODULE-IDENTITY with 0-3 REVISION clauses'))
    return out


def selftests(prop):
    return [('x_revisions', dict(n=2, t0=0, t1=1, t2=2, genTexts=True))]
