"""C15, pysnmp side (engine EXEC): the text obtained by executing the generated module equals the text of the JSON document
up to white space - for every text-bearing clause, texts from a pool of critical contents, genTexts on/off."""
from harness import c15_texts as _b, execpy
from harness.c15_texts import CLAUSES

# quoted token values: apostrophes, line breaks (LF, CRLF), non-ASCII, percent / braces (template syntax), long unbroken word,
# leading / trailing blanks, triple apostrophes, hash, HTML-special characters, backslashes (known finding)
POOL = ['""', '"a"', '"it\'s"', '"a\nb"', '"a\r\nb"', '"\u00e9\u20ac"', '"{{ x }} {% y %}"', '"%s %d"', '" a "', '"\'\'\'"', '"# c"',
        '"<a> & </a>"', '"' + 'w' * 90 + '"', '"' + 'aaaa-' * 30 + 'end"', '"a\\b"', '"\\"']


def text_pool(ci: int, ti: int, genTexts: bool) -> bool:
    """
    requires: 0 <= ci < len(CLAUSES) and 0 <= ti < len(POOL)
    """
    v = POOL[0]
    for i in range(len(POOL)):
        if ti == i:
            v = POOL[i]
    return _b.text_clause(ci, v, genTexts, False)


x_text_pool = execpy.wrap(text_pool, ('kind', 'oid', 'texts'), 'x_text_pool')
xs_text_pool = execpy.wrap(text_pool, ('kind', 'oid', 'texts'), 'xs_text_pool', strict=True)

X = 'the real template + compile() + pysnmp executed concretely on every solver-explored shape; '


def conditions(prop, tier):
    q = tier == 'quick'
    t = 280 if q else 1500
    out = []
    if prop == 'C04':
        # "syntactically valid Python ... loads": the texts pasted into ONE-LINE literals (DISPLAY-HINT, UNITS, PRODUCT-RELEASE)
        # are where a line break or a backslash breaks the module as a whole
        for ci in range(len(CLAUSES)):
            if CLAUSES[ci] in ('ot-units', 'tc-displayhint', 'ac-productrelease'):
                out.append(dict(name='C04.exec.oneline-text.%s' % CLAUSES[ci], fn='x_text_pool', fixed=dict(ci=ci), timeout=t,
                                bounds=X + 'clause %s with each of %d critical texts: the generated module compiles, loads and carries the text' % (CLAUSES[ci], len(POOL))))
        return out
    for ci in range(len(CLAUSES)):
        out.append(dict(name='C15.exec.%s' % CLAUSES[ci], fn='x_text_pool', fixed=dict(ci=ci), timeout=t,
                        bounds=X + 'clause %s with each of %d critical texts (apostrophes, line breaks, non-ASCII, template and format '
                               'syntax, long unbroken word, blanks, HTML-special characters, backslashes), genTexts on/off' % (CLAUSES[ci], len(POOL))))
    return out


def selftests(prop):
    if prop == 'C04':
        return [('x_text_pool', dict(ci=2, ti=3, genTexts=True))]
    return [('x_text_pool', dict(ci=0, ti=2, genTexts=True)), ('x_text_pool', dict(ci=3, ti=3, genTexts=False))]
