"""C07 / C08 / C09 / C01 (engine EXEC, library level): the REAL MibCompiler with REAL components (CallbackReader, the real
parser, SymtableCodeGen, JsonCodeGen / PySnmpCodeGen with the real templates, CallbackWriter) on a small module set whose
shape is symbolic - once per solver-explored shape, concretely.

The symbolic compile() conditions (harness/hcompile.py) script every component; this module closes the loop: with the real
components plugged in, the statuses, the texts handed to the writer and the per-module summaries (oids / identity) are what
the ground truth of the shape says. It validates the scripted-component model against the real ones for every shape.
"""
import json

from harness import tok
from pysmi import error

BASE = '%s DEFINITIONS ::= BEGIN\n%sStub OBJECT IDENTIFIER ::= { iso %d }\nEND\n'
STUBS = {'SNMPv2-SMI': BASE % ('SNMPv2-SMI', 'smi', 101), 'SNMPv2-TC': BASE % ('SNMPv2-TC', 'tc', 102),
         'SNMPv2-CONF': BASE % ('SNMPv2-CONF', 'conf', 103)}


def pick(table, k):
    for i in range(len(table)):
        if k == i:
            return table[i]
    return table[0]


def _a(kind, imp_b, imp_c):
    if kind == 1:
        return 'A-MIB DEFINITIONS ::= BEGIN\naRoot OBJECT IDENTIFIER ::= { iso 3 \nEND\n'
    if kind == 2:
        return 'A-MIB DEFINITIONS ::= BEGIN\naRoot OBJECT IDENTIFIER ::= { noSuchParent 3 }\nEND\n'
    imps = []
    if imp_b:
        imps.append('bRoot FROM B-MIB')
    if imp_c:
        imps.append('cRoot FROM C-MIB')
    head = ('IMPORTS %s;\n' % ' '.join(imps)) if imps else ''
    parent = 'bRoot' if imp_b else ('cRoot' if imp_c else 'iso')
    return ('A-MIB DEFINITIONS ::= BEGIN\n%saRoot OBJECT IDENTIFIER ::= { %s 3 }\naLeaf OBJECT IDENTIFIER ::= { aRoot 1 }\nEND\n'
            % (head, parent))


def _b(kind, imp_c, imp_a):
    if kind == 1:
        return 'B-MIB DEFINITIONS ::= BEGIN\nbRoot OBJECT IDENTIFIER ::= iso 4 }\nEND\n'
    if kind == 2:
        return 'B-MIB DEFINITIONS ::= BEGIN\nbRoot OBJECT IDENTIFIER ::= { iso 4 }\nbRoot OBJECT IDENTIFIER ::= { iso 5 }\nEND\n'
    imps = []
    if imp_c:
        imps.append('cRoot FROM C-MIB')
    if imp_a:
        imps.append('aLeaf FROM A-MIB')          # a cycle A -> B -> A (the symbol is imported, not used as a parent)
    head = ('IMPORTS %s;\n' % ' '.join(imps)) if imps else ''
    return 'B-MIB DEFINITIONS ::= BEGIN\n%sbRoot OBJECT IDENTIFIER ::= { %s 4 }\nEND\n' % (head, 'cRoot' if imp_c else 'iso')


C_TEXT = 'C-MIB DEFINITIONS ::= BEGIN\ncRoot OBJECT IDENTIFIER ::= { iso 6 }\nEND\n'


def real_compile(akind: int, bkind: int, a_b: bool, a_c: bool, b_c: bool, b_a: bool, has_c: bool, req_b: bool,
                 ignore: bool, nodeps: bool, backend: int) -> bool:
    """
    requires: 0 <= akind <= 2 and 0 <= bkind <= 3 and 0 <= backend <= 1
    """
    akind, bkind, backend = pick([0, 1, 2], akind), pick([0, 1, 2, 3], bkind), pick([0, 1], backend)
    a_b, a_c, b_c, b_a, has_c, req_b, ignore, nodeps = (bool(a_b), bool(a_c), bool(b_c), bool(b_a), bool(has_c), bool(req_b),
                                                      bool(ignore), bool(nodeps))
    with tok._untraced():
        return _real_compile(akind, bkind, a_b, a_c, b_c, b_a, has_c, req_b, ignore, nodeps, backend)


def _real_compile(akind, bkind, a_b, a_c, b_c, b_a, has_c, req_b, ignore, nodeps, backend):
    import jinja2
    from pysmi.codegen import jsondoc as _jd, pysnmp as _ps
    from pysmi.compiler import MibCompiler
    from pysmi.parser.smi import parserFactory
    from pysmi.reader.callback import CallbackReader
    from pysmi.writer.callback import CallbackWriter
    from pysmi.searcher.stub import StubSearcher
    old = (_jd.jinja2, _ps.jinja2)
    _jd.jinja2 = _ps.jinja2 = jinja2                # the real template engine (other conditions of this process may have captured it)
    texts = dict(STUBS)
    texts['A-MIB'] = _a(akind, a_b, a_c)
    if bkind != 3:
        texts['B-MIB'] = _b(bkind, b_c, b_a)
    if has_c:
        texts['C-MIB'] = C_TEXT
    asked, written = [], []
    try:
        cg = (_jd.JsonCodeGen, _ps.PySnmpCodeGen)[backend]()
        comp = MibCompiler(parserFactory()(), cg, CallbackWriter(lambda name, data, ctx: written.append((name, data))))
        comp.addSources(CallbackReader(lambda name, ctx: (asked.append(name), texts.get(name))[1]))
        comp.addSearchers(StubSearcher(*sorted(STUBS)))
        try:
            res = comp.compile(*(['A-MIB'] + (['B-MIB'] if req_b else [])), ignoreErrors=ignore, noDeps=nodeps)
        except Exception:
            return False                            # nothing escapes compile()
    finally:
        _jd.jinja2, _ps.jinja2 = old
    # ---- ground truth of the shape ------------------------------------------------------------------------------------
    a_ok = akind == 0
    b_in = req_b or (a_ok and a_b)
    b_ok = b_in and bkind == 0
    c_in = (a_ok and a_c) or (b_ok and b_c)
    fate = {}
    if akind:
        fate['A-MIB'] = 'failed'
    if b_in and bkind in (1, 2):
        fate['B-MIB'] = 'failed'
    if b_in and bkind == 3:
        fate['B-MIB'] = 'missing'
    if c_in and not has_c:
        fate['C-MIB'] = 'missing'
    # a module whose OID parent lives in a module that cannot be used fails in the code generator
    b_generated = b_ok and (req_b or not nodeps)
    if b_generated and b_c and not has_c:
        fate['B-MIB'] = 'failed'
    b_unusable = b_in and (bkind != 0 or (b_c and not has_c))      # bRoot cannot be resolved to numbers
    if a_ok and ((a_b and b_unusable) or (not a_b and a_c and not has_c)):
        fate['A-MIB'] = 'failed'
    closure = ['A-MIB'] + (['B-MIB'] if b_in else []) + (['C-MIB'] if c_in else [])
    for mod in closure:
        if mod not in res:
            return False                            # every requested / reachable module is accounted for
        st = res[mod]
        if mod in fate:
            if st != fate[mod]:
                return False
            if fate[mod] == 'failed' and not isinstance(getattr(st, 'error', None), error.PySmiError):
                return False
    for mod in res:
        if mod not in closure and mod not in STUBS:
            return False
    # each module is fetched at most once (the stubs included)
    for name in set(asked):
        if asked.count(name) > 1:
            return False
    wnames = [w[0] for w in written]
    if len(set(wnames)) != len(wnames):
        return False
    gate_closed = bool(fate) and not ignore
    for mod in closure:
        if mod in fate:
            if mod in wnames:
                return False
            continue
        wanted = (not nodeps) or mod == 'A-MIB' or (mod == 'B-MIB' and req_b)
        if gate_closed:
            if mod in wnames or res[mod] in ('compiled', 'borrowed'):
                return False
            if wanted and res[mod] != 'unprocessed':
                return False
        elif wanted:
            if mod not in wnames or res[mod] != 'compiled':
                return False
            # the summary handed back with the status names the module's OIDs
            want_oids = {'A-MIB': 2, 'B-MIB': 1, 'C-MIB': 1}[mod]
            if len(getattr(res[mod], 'oids', ()) or ()) != want_oids:
                return False
        else:
            if mod in wnames or res[mod] == 'compiled':
                return False
    # what reached the writer is the generated text: well-formed and about that module
    for name, data in written:
        if backend == 0:
            try:
                doc = json.loads(data)
            except ValueError:
                return False
            if doc.get('meta', {}).get('module') != name:
                return False
        else:
            try:
                compile(data, name, 'exec')
            except SyntaxError:
                return False
            if ('"%s"' % name) not in data:
                return False
    return True


X = 'the REAL MibCompiler with real reader / parser / generators / writer objects, concretely, once per solver-explored shape; '


def conditions(prop, tier):
    q = tier == 'quick'
    t = 280 if q else 1500
    out = []
    for be in (0, 1):
        for ak in (0, 1, 2):
            if ak and be:
                continue
          # (the healthy-A shards are the large ones: split by the state of B)
            for bk in ((0, 1, 2, 3) if ak == 0 else (None,)):
              if q and be and bk in (1, 2):
                  continue
              fx = dict(backend=be, akind=ak)
              if bk is not None:
                  fx['bkind'] = bk
              out.append(dict(name='%s.exec.real-compile.%s.a%d%s' % (prop, ('json', 'pysnmp')[be], ak, '' if bk is None else '.b%d' % bk), fn='real_compile', fixed=fx,
                            timeout=t, extra_pre=['not b_a or (a_b and bkind == 0)'],
                            bounds=X + 'module A %s; B healthy / syntax error / duplicate symbol / absent; imports A->B, A->C, B->C, B->A (cycle); C present '
                                   'or absent; B requested too; ignoreErrors, noDeps: statuses, writer calls, summaries and written texts vs the ground truth of the '
                                   'shape' % ('healthy', 'with a syntax error', 'with an unknown OID parent')[ak]))
    return out


def selftests(prop):
    return [('real_compile', dict(akind=0, bkind=0, a_b=True, a_c=False, b_c=True, b_a=True, has_c=True, req_b=False, ignore=False, nodeps=False, backend=0)),
            ('real_compile', dict(akind=0, bkind=2, a_b=True, a_c=True, b_c=False, b_a=False, has_c=True, req_b=True, ignore=True, nodeps=False, backend=1))]
