"""C10 (second half): the file-based searchers and the stub searcher.

Real code executed symbolically: AnyFileSearcher.fileExists, PyFileSearcher.fileExists, StubSearcher.fileExists.
Stubs: os/os.path (ModelFS), and for PyFileSearcher `open` and `struct.unpack` in the module namespace
(the .pyc header is modelled as magic + one time field).

Symbolic: per candidate file its kind (0 absent, 1 directory, 2 regular file) and an UNBOUNDED modification
time, the source's modification time (unbounded), rebuild, a stat/open fault, presence of distractor files
(other extension, other module whose name extends the requested one).
"""
from pysmi.searcher import anyfile, pyfile, stub
from pysmi import error
from harness.envstubs import ModelFS, FakeOs


def _mkfs(fault):
    fs = ModelFS(fault_at=fault, kind=1)
    fs.dirs.add('/d')
    return fs


def _put(fs, path, st, t):
    if st == 1:
        fs.dirs.add(path)
        fs.mtimes[path] = t
    elif st == 2:
        fs.files[path] = b'x'
        fs.mtimes[path] = t


def _ask(s, name, mtime, rebuild):
    try:
        r = s.fileExists(name, mtime, rebuild=rebuild)
        return 'returned' if r is None else 'value'
    except error.PySmiFileNotModifiedError:
        return 'not-modified'
    except error.PySmiFileNotFoundError:
        return 'not-found'
    except error.PySmiSearcherError:
        return 'searcher-error'
    except Exception:
        return 'other-exception'


def search_any(st0: int, st1: int, t0: int, t1: int, mtime: int, rebuild: bool, fault: int, distract: bool) -> bool:
    """
    requires: 0 <= st0 <= 2 and 0 <= st1 <= 2 and 0 <= fault <= 3
    """
    fs = _mkfs(fault)
    _put(fs, '/d/M.json', st0, t0)
    _put(fs, '/d/M.js', st1, t1)
    if distract:
        # fresh files that must NOT count: other extension, longer module name, name as a directory component
        _put(fs, '/d/M.txt', 2, mtime + 1)
        _put(fs, '/d/MX.json', 2, mtime + 1)
        _put(fs, '/d/M', 2, mtime + 1)
    anyfile.os = FakeOs(fs)
    s = anyfile.AnyFileSearcher('/d').setOptions(exts=['.json', '.js'])
    got = _ask(s, 'M', mtime, rebuild)
    if rebuild:
        return got == 'returned' and fs.ncalls == 0
    fresh = (st0 == 2 and t0 >= mtime) or (st1 == 2 and t1 >= mtime)
    if got == 'searcher-error':
        return 'FAULT' in fs.trace
    if got == 'not-modified':
        return fresh
    if got == 'not-found':
        # a fault may only turn an answer into the searcher error, never into a wrong answer
        return not fresh
    return False


class _FakeFile(object):
    def __init__(self, data):
        self.data = data

    def read(self, n=-1):
        return self.data[:n] if n >= 0 else self.data

    def close(self):
        pass


def search_py(stc: int, magic_ok: bool, tc: int, stp: int, tp: int, mtime: int, rebuild: bool, fault: int) -> bool:
    """
    requires: 0 <= stc <= 2 and 0 <= stp <= 2 and 0 <= fault <= 3
    requires: 0 <= tc
    """
    fs = _mkfs(fault)
    cext = pyfile.BYTECODE_SUFFIXES[0]
    pext = pyfile.SOURCE_SUFFIXES[0]
    _put(fs, '/d/M' + cext, stc, tc)
    _put(fs, '/d/M' + pext, stp, tp)
    pyfile.os = FakeOs(fs)

    def fake_open(path, mode='r'):
        fs.fault('open')
        if path not in fs.files:
            raise IOError(2, path)
        hdr = pyfile.PY_MAGIC_NUMBER if magic_ok else b'BAD!'
        return _FakeFile(hdr + b'TIME' + b'rest')

    class _Struct(object):
        @staticmethod
        def unpack(fmt, data):
            return (tc,)

    pyfile.open = fake_open
    pyfile.struct = _Struct
    s = pyfile.PyFileSearcher('/d')
    got = _ask(s, 'M', mtime, rebuild)
    if rebuild:
        return got == 'returned' and fs.ncalls == 0
    fresh = (stc == 2 and magic_ok and tc >= mtime) or (stp == 2 and tp >= mtime)
    if got == 'searcher-error':
        return 'FAULT' in fs.trace
    if got == 'not-modified':
        return fresh
    if got == 'not-found':
        return not fresh
    return False


# ---- PyPackageSearcher: a package directory (delegates to PyFileSearcher) or a zipped egg (loader with a file table) -----
import sys as _sys
import types as _types
from pysmi.searcher import pypackage

# (DOS date, DOS time) pairs of the egg's file table and the epoch seconds time.mktime gives for them (computed with the
# same formula as the documented ZIP layout, NOT by the code under test)
def _dos(y, mo, d, h, mi, sec):
    return ((y - 1980) << 9) | (mo << 5) | d, (h << 11) | (mi << 5) | (sec // 2)


DOS_POOL = [(2001, 2, 3, 4, 5, 6), (2010, 12, 31, 23, 59, 58), (1999, 1, 1, 0, 0, 0)]


def _epoch(t):
    import time
    return time.mktime(t + (-1, -1, -1))


class _Loader(object):
    def __init__(self, files, datas):
        self._files = files
        self._datas = datas

    def get_data(self, f):
        return self._datas[f]


def search_pkg_egg(stc: int, magic_ok: bool, tc: int, has_py: bool, di: int, off: int, rebuild: bool, other: bool) -> bool:
    """
    requires: 0 <= stc <= 1 and 0 <= di < len(DOS_POOL) and -1 <= off <= 1 and 0 <= tc
    """
    # the package is a zipped egg: its loader exposes the archive's file table. `off` places the source's mtime just below /
    # at / just above the time recorded for the module's .py; `tc` (unbounded) is the time embedded in the .pyc
    cext, pext = pypackage.BYTECODE_SUFFIXES[0], pypackage.SOURCE_SUFFIXES[0]
    dt = DOS_POOL[0]
    for j in range(len(DOS_POOL)):
        if di == j:
            dt = DOS_POOL[j]
    dd, dtm = _dos(*dt)
    py_time = int(_epoch(dt))
    # (the .py's time is a float inside the code under test: keep the source time concrete when it is compared with it)
    offc = -1 if off < 0 else (1 if off > 0 else 0)
    mtime = py_time + offc if has_py else tc + off
    files, datas = {}, {}
    if stc == 1:
        files['vpkg/M-MIB' + cext] = (0,) * 7
        datas['vpkg/M-MIB' + cext] = (pypackage.PY_MAGIC_NUMBER if magic_ok else b'BAD!') + b'TIME' + b'rest'
    if has_py:
        files['vpkg/M-MIB' + pext] = (0, 0, 0, 0, 0, dtm, dd)
    if other:
        # files that must not count: another module whose name extends the requested one, another extension
        files['vpkg/M-MIBX' + pext] = (0, 0, 0, 0, 0, 0x7fff, 0x7fff)
        files['vpkg/M-MIB.txt'] = (0, 0, 0, 0, 0, 0x7fff, 0x7fff)
    mod = _types.ModuleType('vpkg')
    mod.__loader__ = _Loader(files, datas)
    mod.__file__ = '/eggs/vpkg.egg/vpkg/__init__.py'

    class _Struct(object):
        @staticmethod
        def unpack(fmt, data):
            return (tc,)

    old = _sys.modules.get('vpkg')
    _sys.modules['vpkg'] = mod
    pypackage.struct = _Struct
    try:
        got = _ask(pypackage.PyPackageSearcher('vpkg'), 'M-MIB', mtime, rebuild)
    finally:
        if old is None:
            del _sys.modules['vpkg']
        else:
            _sys.modules['vpkg'] = old
    if rebuild:
        return got == 'returned'
    # up to date exactly when SOME transformed file of that module is not older than the source (the statement; an earlier
    # version of this oracle said "the byte-code file decides", mirroring the code - and hid a defect)
    fresh = (stc == 1 and magic_ok and tc >= mtime) or (has_py and py_time >= mtime)
    return got == ('not-modified' if fresh else 'not-found')


def search_pkg_dir(stp: int, tp: int, mtime: int, rebuild: bool, importable: bool) -> bool:
    """
    requires: 0 <= stp <= 2
    """
    # an ordinary package directory: the answer is PyFileSearcher's answer for that directory; an unimportable package is
    # simply "not found"
    fs = _mkfs(0)
    fs.dirs.add('/site/vpkg2')
    _put(fs, '/site/vpkg2/M-MIB' + pyfile.SOURCE_SUFFIXES[0], stp, tp)
    pyfile.os = FakeOs(fs)
    mod = _types.ModuleType('vpkg2')
    mod.__file__ = '/site/vpkg2/__init__.py'
    if hasattr(mod, '__loader__'):
        mod.__loader__ = None
    old = _sys.modules.get('vpkg2')
    if importable:
        _sys.modules['vpkg2'] = mod
    else:
        _sys.modules.pop('vpkg2', None)
    try:
        got = _ask(pypackage.PyPackageSearcher('vpkg2'), 'M-MIB', mtime, rebuild)
    finally:
        _sys.modules.pop('vpkg2', None)
        if old is not None:
            _sys.modules['vpkg2'] = old
    if rebuild:
        return got == 'returned'
    if not importable:
        return got == 'not-found'
    fresh = stp == 2 and tp >= mtime
    return got == ('not-modified' if fresh else 'not-found')


def real_pyc(keep_py: bool, off: int, py_off: int, legacy: bool) -> bool:
    """
    requires: -1 <= off <= 1 and -2 <= py_off <= 0
    """
    # REAL byte-code written by py_compile on a real directory, read by the unmodified PyFileSearcher (no stubs): the time a
    # .pyc carries is the modification time of the source it was compiled from. `off` places the MIB source's time just
    # below / at / above it; the .py itself may be gone (only byte-code shipped) or older than the MIB source.
    off, py_off = (-1 if off < 0 else (1 if off > 0 else 0)), (-2 if py_off <= -2 else (-1 if py_off == -1 else 0))
    keep_py, legacy = bool(keep_py), bool(legacy)
    from harness import tok
    with tok._untraced():
        import importlib
        import os
        import py_compile
        import shutil
        import tempfile
        importlib.reload(pyfile)                # undo the stubs other conditions installed in this process ...
        vars(pyfile).pop('open', None)          # ... including the module-level `open` a reload does not remove
        d = tempfile.mkdtemp(prefix='verif-x10-')
        try:
            src = os.path.join(d, 'M-MIB.py')
            with open(src, 'w') as f:
                f.write('x = 1\n')
            t0 = 1500000000
            os.utime(src, (t0, t0))
            py_compile.compile(src, cfile=os.path.join(d, 'M-MIB' + pyfile.BYTECODE_SUFFIXES[0]), doraise=True)
            if keep_py:
                os.utime(src, (t0 + py_off, t0 + py_off))       # the source next to it is as old as the byte-code or older
            else:
                os.unlink(src)
            got = _ask(pyfile.PyFileSearcher(d), 'M-MIB', t0 + off, False)
        finally:
            shutil.rmtree(d, ignore_errors=True)
    fresh = off <= 0                                    # the byte-code is not older than the MIB source
    if keep_py and py_off >= off:
        fresh = True
    return got == ('not-modified' if fresh else 'not-found')


def import_bare(flags: str) -> bool:
    """
    requires: flags in ('-I', '-IS')
    """
    # concrete witness: the searcher package imports in an interpreter where nothing else has loaded importlib.machinery
    # (no site processing with -S); a searcher that cannot even be imported answers nothing at all
    import os
    import subprocess
    import ply
    repo = os.environ.get('VERIF_REPO', '/repo')
    site = os.path.dirname(os.path.dirname(os.path.abspath(ply.__file__)))
    code = 'import sys; sys.path.insert(0, %r); sys.path.append(%r); import pysmi.searcher' % (repo, site)
    args = [_sys.executable] + (['-I', '-S'] if flags == '-IS' else ['-I']) + ['-c', code]
    return subprocess.run(args, stdout=subprocess.PIPE, stderr=subprocess.PIPE).returncode == 0


POOL = ['SNMPv2-SMI', 'SNMPv2-TC', 'IF-MIB', 'SNMPv2', 'if-mib']


def search_stub(ask: int, in0: bool, in1: bool, in2: bool, in3: bool, in4: bool, mtime: int, rebuild: bool) -> bool:
    """
    requires: 0 <= ask < 5
    """
    member = [in0, in1, in2, in3, in4]
    names = [POOL[i] for i in range(5) if member[i]]
    s = stub.StubSearcher(*names)
    name = POOL[0]
    for i in range(5):
        if ask == i:
            name = POOL[i]
    got = _ask(s, name, mtime, rebuild)
    want = False
    for i in range(5):
        if ask == i and member[i]:
            want = True
    # explicit stub lists are not overridden by rebuild and do not look at times
    return got == ('not-modified' if want else 'not-found')


def conditions(prop, tier):
    t = 200 if tier == 'quick' else 900
    return [
        dict(name='C10.AnyFileSearcher', fn='search_any', fixed={}, timeout=t,
             bounds='2 extensions; each candidate absent/dir/file with unbounded symbolic mtime; source mtime unbounded; '
                    'rebuild; stat fault at call<=3; distractor files'),
        dict(name='C10.PyFileSearcher', fn='search_py', fixed={}, timeout=t,
             bounds='.pyc (absent/dir/file, magic ok or not, unbounded embedded time) and .py (absent/dir/file, unbounded mtime); '
                    'source mtime unbounded; rebuild; open/stat fault at call<=3'),
    ] + [
        dict(name='C10.PyPackageSearcher.egg.c%d.p%d' % (stc, hp), fn='search_pkg_egg', fixed=dict(stc=stc, has_py=hp), timeout=t + 80,
             bounds='zipped egg (loader with a file table): .pyc present or not, magic ok or not, unbounded embedded time; .py present or not with a DOS '
                    'time stamp from a pool; source mtime one second below / equal / above the deciding time; distractor entries; rebuild')
        for stc in (0, 1) for hp in (False, True)
    ] + [
        dict(name='C10.PyPackageSearcher.dir', fn='search_pkg_dir', fixed={}, timeout=t,
             bounds='package directory (delegation to PyFileSearcher) or unimportable package; .py absent/dir/file with unbounded mtime; rebuild'),
        dict(name='C10.exec.PyFileSearcher.real-pyc', fn='real_pyc', fixed=dict(legacy=True), timeout=t,
             bounds='REAL .pyc written by py_compile (real header layout of the running interpreter) on a real directory, source .py kept (same age / '
                    'older) or removed, MIB source time one second below / equal / above the compiled time: unmodified PyFileSearcher, no stubs'),
        dict(name='C10.StubSearcher', fn='search_stub', fixed={}, timeout=t,
             bounds='requested name by symbolic index into a 5-name pool (incl. prefix and case variants); every subset as stub list; '
                    'rebuild and mtime symbolic'),
    ]


def selftests(prop):
    return [('search_any', dict(st0=2, st1=0, t0=5, t1=0, mtime=5, rebuild=False, fault=0, distract=True)),
            ('search_any', dict(st0=0, st1=0, t0=5, t1=0, mtime=5, rebuild=False, fault=0, distract=True)),
            ('search_py', dict(stc=0, magic_ok=True, tc=0, stp=2, tp=9, mtime=5, rebuild=False, fault=0)),
            ('search_pkg_egg', dict(stc=1, magic_ok=True, tc=100, has_py=True, di=0, off=0, rebuild=False, other=True)),
            ('search_pkg_egg', dict(stc=0, magic_ok=True, tc=0, has_py=True, di=1, off=1, rebuild=False, other=False)),
            ('search_pkg_dir', dict(stp=2, tp=9, mtime=9, rebuild=False, importable=True)),
            ('search_pkg_dir', dict(stp=2, tp=9, mtime=9, rebuild=False, importable=False)),
            ('import_bare', dict(flags='-IS')), ('real_pyc', dict(keep_py=False, off=0, py_off=0, legacy=True)),
            ('search_stub', dict(ask=3, in0=True, in1=False, in2=False, in3=False, in4=False, mtime=0, rebuild=True))]
