"""C10 (second half): the file-based searchers and the stub searcher.

Real code executed symbolically: AnyFileSearcher.fileExists, PyFileSearcher.fileExists, StubSearcher.fileExists.
Stubs: os/os.path (ModelFS), and for PyFileSearcher `open` and `struct.unpack` in the module namespace
(the .pyc header is modelled as magic + one time field).

Symbolic: per candidate file its kind (0 absent, 1 directory, 2 regular file) and an UNBOUNDED modification
time, the source's modification time (unbounded), rebuild, a stat/open fault, presence of distractor files
(other extension, other module whose name extends the requested one).
"""
from pysmi.searcher import anyfile, pyfile, stub
from pysmi import error
from harness.envstubs import ModelFS, FakeOs


def _mkfs(fault):
    fs = ModelFS(fault_at=fault, kind=1)
    fs.dirs.add('/d')
    return fs


def _put(fs, path, st, t):
    if st == 1:
        fs.dirs.add(path)
        fs.mtimes[path] = t
    elif st == 2:
        fs.files[path] = b'x'
        fs.mtimes[path] = t


def _ask(s, name, mtime, rebuild):
    try:
        r = s.fileExists(name, mtime, rebuild=rebuild)
        return 'returned' if r is None else 'value'
    except error.PySmiFileNotModifiedError:
        return 'not-modified'
    except error.PySmiFileNotFoundError:
        return 'not-found'
    except error.PySmiSearcherError:
        return 'searcher-error'
    except Exception:
        return 'other-exception'


def search_any(st0: int, st1: int, t0: int, t1: int, mtime: int, rebuild: bool, fault: int, distract: bool) -> bool:
    """
    requires: 0 <= st0 <= 2 and 0 <= st1 <= 2 and 0 <= fault <= 3
    """
    fs = _mkfs(fault)
    _put(fs, '/d/M.json', st0, t0)
    _put(fs, '/d/M.js', st1, t1)
    if distract:
        # fresh files that must NOT count: other extension, longer module name, name as a directory component
        _put(fs, '/d/M.txt', 2, mtime + 1)
        _put(fs, '/d/MX.json', 2, mtime + 1)
        _put(fs, '/d/M', 2, mtime + 1)
    anyfile.os = FakeOs(fs)
    s = anyfile.AnyFileSearcher('/d').setOptions(exts=['.json', '.js'])
    got = _ask(s, 'M', mtime, rebuild)
    if rebuild:
        return got == 'returned' and fs.ncalls == 0
    fresh = (st0 == 2 and t0 >= mtime) or (st1 == 2 and t1 >= mtime)
    if got == 'searcher-error':
        return 'FAULT' in fs.trace
    if got == 'not-modified':
        return fresh
    if got == 'not-found':
        # a fault may only turn an answer into the searcher error, never into a wrong answer
        return not fresh
    return False


class _FakeFile(object):
    def __init__(self, data):
        self.data = data

    def read(self, n=-1):
        return self.data[:n] if n >= 0 else self.data

    def close(self):
        pass


def search_py(stc: int, magic_ok: bool, tc: int, stp: int, tp: int, mtime: int, rebuild: bool, fault: int) -> bool:
    """
    requires: 0 <= stc <= 2 and 0 <= stp <= 2 and 0 <= fault <= 3
    requires: 0 <= tc
    """
    fs = _mkfs(fault)
    cext = pyfile.BYTECODE_SUFFIXES[0]
    pext = pyfile.SOURCE_SUFFIXES[0]
    _put(fs, '/d/M' + cext, stc, tc)
    _put(fs, '/d/M' + pext, stp, tp)
    pyfile.os = FakeOs(fs)

    def fake_open(path, mode='r'):
        fs.fault('open')
        if path not in fs.files:
            raise IOError(2, path)
        hdr = pyfile.PY_MAGIC_NUMBER if magic_ok else b'BAD!'
        return _FakeFile(hdr + b'TIME' + b'rest')

    class _Struct(object):
        @staticmethod
        def unpack(fmt, data):
            return (tc,)

    pyfile.open = fake_open
    pyfile.struct = _Struct
    s = pyfile.PyFileSearcher('/d')
    got = _ask(s, 'M', mtime, rebuild)
    if rebuild:
        return got == 'returned' and fs.ncalls == 0
    fresh = (stc == 2 and magic_ok and tc >= mtime) or (stp == 2 and tp >= mtime)
    if got == 'searcher-error':
        return 'FAULT' in fs.trace
    if got == 'not-modified':
        return fresh
    if got == 'not-found':
        return not fresh
    return False


POOL = ['SNMPv2-SMI', 'SNMPv2-TC', 'IF-MIB', 'SNMPv2', 'if-mib']


def search_stub(ask: int, in0: bool, in1: bool, in2: bool, in3: bool, in4: bool, mtime: int, rebuild: bool) -> bool:
    """
    requires: 0 <= ask < 5
    """
    member = [in0, in1, in2, in3, in4]
    names = [POOL[i] for i in range(5) if member[i]]
    s = stub.StubSearcher(*names)
    name = POOL[0]
    for i in range(5):
        if ask == i:
            name = POOL[i]
    got = _ask(s, name, mtime, rebuild)
    want = False
    for i in range(5):
        if ask == i and member[i]:
            want = True
    # explicit stub lists are not overridden by rebuild and do not look at times
    return got == ('not-modified' if want else 'not-found')


def conditions(prop, tier):
    t = 200 if tier == 'quick' else 900
    return [
        dict(name='C10.AnyFileSearcher', fn='search_any', fixed={}, timeout=t,
             bounds='2 extensions; each candidate absent/dir/file with unbounded symbolic mtime; source mtime unbounded; '
                    'rebuild; stat fault at call<=3; distractor files'),
        dict(name='C10.PyFileSearcher', fn='search_py', fixed={}, timeout=t,
             bounds='.pyc (absent/dir/file, magic ok or not, unbounded embedded time) and .py (absent/dir/file, unbounded mtime); '
                    'source mtime unbounded; rebuild; open/stat fault at call<=3'),
        dict(name='C10.StubSearcher', fn='search_stub', fixed={}, timeout=t,
             bounds='requested name by symbolic index into a 5-name pool (incl. prefix and case variants); every subset as stub list; '
                    'rebuild and mtime symbolic'),
    ]


def selftests(prop):
    return [('search_any', dict(st0=2, st1=0, t0=5, t1=0, mtime=5, rebuild=False, fault=0, distract=True)),
            ('search_any', dict(st0=0, st1=0, t0=5, t1=0, mtime=5, rebuild=False, fault=0, distract=True)),
            ('search_py', dict(stc=0, magic_ok=True, tc=0, stp=2, tp=9, mtime=5, rebuild=False, fault=0)),
            ('search_stub', dict(ask=3, in0=True, in1=False, in2=False, in3=False, in4=False, mtime=0, rebuild=True))]
