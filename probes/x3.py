from x1 import *

def check3(s0: int, s1: int, s2: int, p0: bool, p1: bool, p2: bool,
           i00: bool, i01: bool, i02: bool, i10: bool, i11: bool, i12: bool, i20: bool, i21: bool, i22: bool,
           g0: bool, g1: bool, g2: bool, w0: bool, w1: bool, w2: bool, ignore: bool) -> bool:
    """
    pre: 0 <= s0 <= 2 and 0 <= s1 <= 2 and 0 <= s2 <= 2
    post: _
    """
    res, log = run([s0, s1, s2], [p0, p1, p2], [[i00, i01, i02], [i10, i11, i12], [i20, i21, i22]], [g0, g1, g2], [w0, w1, w2], ignore)
    puts = [e for e in log if e[0] == 'put']
    prefail = any((res[m] in ('failed', 'missing')) and not any(e[1] == m for e in puts) for m in res)
    if prefail and not ignore:
        return len(puts) == 0 and all(res[m] != 'compiled' for m in res)
    return True

def check3_bad(s0: int, s1: int, s2: int, p0: bool, p1: bool, p2: bool,
           i00: bool, i01: bool, i02: bool, i10: bool, i11: bool, i12: bool, i20: bool, i21: bool, i22: bool,
           g0: bool, g1: bool, g2: bool, w0: bool, w1: bool, w2: bool, ignore: bool) -> bool:
    """
    pre: 0 <= s0 <= 2 and 0 <= s1 <= 2 and 0 <= s2 <= 2
    post: _
    """
    res, log = run([s0, s1, s2], [p0, p1, p2], [[i00, i01, i02], [i10, i11, i12], [i20, i21, i22]], [g0, g1, g2], [w0, w1, w2], ignore)
    # false claim: C is never fetched
    return ('get', 'C') not in log or res.get('C') != 'compiled'
