"""Pure-Python backtracking matcher for the regex subset used by pysmi lexer rules (probe)."""
import re
try:
    import re._parser as sp, re._constants as sc
except ImportError:
    import sre_parse as sp, sre_constants as sc

def _in(items, ch, flags):
    neg = False; ok = False
    for op, av in items:
        if op is sc.NEGATE: neg = True
        elif op is sc.LITERAL:
            if ord(ch) == av: ok = True
        elif op is sc.RANGE:
            if av[0] <= ord(ch) <= av[1]: ok = True
        else: raise NotImplementedError(op)
    return ok != neg

def m(nodes, i, s, pos, k, flags):
    """match nodes[i:] at s[pos:], continuation k(pos)->end or None"""
    if i == len(nodes): return k(pos)
    op, av = nodes[i]
    nxt = lambda p: m(nodes, i + 1, s, p, k, flags)
    if op is sc.LITERAL:
        return nxt(pos + 1) if pos < len(s) and ord(s[pos]) == av else None
    if op is sc.NOT_LITERAL:
        return nxt(pos + 1) if pos < len(s) and ord(s[pos]) != av else None
    if op is sc.ANY:
        return nxt(pos + 1) if pos < len(s) and (flags & re.DOTALL or s[pos] != '\n') else None
    if op is sc.IN:
        return nxt(pos + 1) if pos < len(s) and _in(av, s[pos], flags) else None
    if op is sc.BRANCH:
        for alt in av[1]:
            r = m(list(alt), 0, s, pos, nxt, flags)
            if r is not None: return r
        return None
    if op is sc.SUBPATTERN:
        return m(list(av[3]), 0, s, pos, nxt, flags)
    if op in (sc.MAX_REPEAT, sc.MIN_REPEAT):
        lo, hi, sub = av; sub = list(sub)
        def rep(p, n):
            if op is sc.MAX_REPEAT:
                if hi is sc.MAXREPEAT or n < hi:
                    r = m(sub, 0, s, p, lambda q: rep(q, n + 1) if q > p else None, flags)
                    if r is not None: return r
                return nxt(p) if n >= lo else None
            else:
                if n >= lo:
                    r = nxt(p)
                    if r is not None: return r
                if hi is sc.MAXREPEAT or n < hi:
                    return m(sub, 0, s, p, lambda q: rep(q, n + 1) if q > p else None, flags)
                return None
        return rep(pos, 0)
    if op is sc.ASSERT:
        d, sub = av
        if d != 1: raise NotImplementedError
        r = m(list(sub), 0, s, pos, lambda q: q, flags)
        return nxt(pos) if r is not None else None
    raise NotImplementedError(op)

class M:
    def __init__(self, s, a, b, idx): self.s, self.a, self.b, self.lastindex = s, a, b, idx
    def group(self): return self.s[self.a:self.b]
    def end(self): return self.b
    def span(self): return (self.a, self.b)

class ShimRe:
    def __init__(self, cre):
        self.flags = cre.flags
        tree = sp.parse(cre.pattern, cre.flags)
        top = list(tree)
        assert len(top) == 1 and top[0][0] is sc.BRANCH
        self.alts = [list(a) for a in top[0][1][1]]
    def match(self, s, pos=0):
        for n, alt in enumerate(self.alts):
            e = m(alt, 0, s, pos, lambda q: q, self.flags)
            if e is not None:
                return M(s, pos, e, n + 1)
        return None

def install(plylexer):
    for st, lst in plylexer.lexstatere.items():
        plylexer.lexstatere[st] = [(ShimRe(cre), names) for cre, names in lst]
    plylexer.lexre = plylexer.lexstatere[plylexer.lexstate]
