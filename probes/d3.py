from pysmi.parser.smi import parserFactory
from pysmi import error
P = parserFactory()()
for txt in ['A DEFINITIONS ::= BEGIN OBJECT-TYPE MACRO ::= BEGIN x', 'A DEFINITIONS ::= BEGIN OBJECT-TYPE MACRO ::= BEGIN DEPENDS END END',
            'A DEFINITIONS ::= BEGIN OBJECT-TYPE MACRO ::=\n BEGIN\n x\n END\n b OBJECT IDENTIFIER ::= { 1 3 ] END',
            'A DEFINITIONS ::= BEGIN\n\n\n b OBJECT IDENTIFIER ::= { 1 3 ] END',
            'A DEFINITIONS ::= BEGIN a-- c\n OBJECT IDENTIFIER ::= { 1 3 } END',
            'A DEFINITIONS ::= BEGIN a -- c\n OBJECT IDENTIFIER ::= { 1 3 } END',
            'A DEFINITIONS ::= BEGIN a OBJECT IDENTIFIER ::= { 1 99999999999999999999999 } END',
            'A DEFINITIONS ::= BEGIN\n a OBJECT IDENTIFIER ::= {\n 1 ? } END']:
    try:
        print(repr(txt), '->', P.parse(txt))
    except Exception as e:
        print(repr(txt), 'EXC', type(e).__module__, type(e).__name__, e)
