from typing import Optional
from pysmi.codegen.symtable import SymtableCodeGen
from pysmi.codegen.intermediate import IntermediateCodeGen

AST = ('M', None, {}, [('valueDeclaration', 'n0', ('objectIdentifier', ['iso', 3])),
                        ('moduleIdentityClause', 'mi', ('LAST-UPDATED', '200001010000Z'), ('ORGANIZATION', 'o'), ('CONTACT-INFO', 'c'), ('DESCRIPTION', 'd'), None, ('objectIdentifier', ['n0', 1]))])

def check_symtable_state(rev: Optional[str], fakeidx: int, has_row: bool) -> bool:
    """
    pre: fakeidx >= 1000
    post: _
    """
    g = SymtableCodeGen()
    g._moduleRevision = rev
    g.fakeidx = fakeidx
    if has_row: g._rows.add('X'); g._cols['y'] = 1; g._importMap['z'] = 'Q'; g._postponedSyms['q'] = ((), {})
    mi1, t1 = g.genCode(AST, {})
    f = SymtableCodeGen()
    mi2, t2 = f.genCode(AST, {})
    return mi1.revision == mi2.revision and t1 == t2 and mi1.imported == mi2.imported
