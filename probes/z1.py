import time, z3
from pysmi.parser.smi import parserFactory
from pysmi.parser import dialect
def tables(d):
    P = parserFactory(**d)(); return P.parser
A = tables(dialect.smiV2); B = tables(dialect.smiV1)
t0 = time.time()
fp = z3.Fixedpoint(); fp.set(engine='datalog')
S = z3.BitVecSort(10)
Reach = z3.Function('Reach', S, S, z3.BoolSort()); fp.register_relation(Reach)
Bad = z3.Function('Bad', S, z3.BoolSort()); fp.register_relation(Bad)
EA = z3.Function('EA', S, S, S, z3.BoolSort()); EB = z3.Function('EB', S, S, S, z3.BoolSort())
Inc = z3.Function('Inc', S, S, z3.BoolSort())
for r in (EA, EB, Inc): fp.register_relation(r)
syms = {}
def sid(x): return syms.setdefault(x, len(syms))
bv = lambda n: z3.BitVecVal(n, 10)
def edges(T):
    out = []
    for s, acts in T.action.items():
        for t, x in acts.items():
            if x > 0: out.append((s, sid(t), x))
    for s, g in T.goto.items():
        for n, x in g.items(): out.append((s, sid(n), x))
    return out
for (s, x, d) in edges(A): fp.fact(EA(bv(s), bv(x), bv(d)))
for (s, x, d) in edges(B): fp.fact(EB(bv(s), bv(x), bv(d)))
def pk(T, x): p = T.productions[-x]; return (p.name, tuple(p.prod))
n_inc = 0
for a, acts in A.action.items():
    for b, bacts in B.action.items():
        ok = True
        for t, x in acts.items():
            y = bacts.get(t)
            if x > 0: c = y is not None and y > 0
            elif x < 0: c = y is not None and y < 0 and pk(A, x) == pk(B, y)
            else: c = (y == 0)
            if not c: ok = False; break
        if not ok:
            fp.fact(Inc(bv(a), bv(b))); n_inc += 1
a, b, x, a2, b2 = z3.BitVecs('a b x a2 b2', 10)
fp.declare_var(a, b, x, a2, b2)
fp.fact(Reach(bv(0), bv(0)))
fp.rule(Reach(a2, b2), [Reach(a, b), EA(a, x, a2), EB(b, x, b2)])
fp.rule(Bad(bv(0)), [Reach(a, b), Inc(a, b)])
r = fp.query(Bad(bv(0)))
print('inc facts', n_inc, 'result', r, 'time %.1fs' % (time.time() - t0))
