import re
from pysmi.codegen import intermediate, symtable
from pysmi.codegen.intermediate import IntermediateCodeGen
from pysmi.codegen.symtable import SymtableCodeGen

def norm(t):
    out = ''; inws = False
    for ch in t:
        if ch in ' \t\n\r\x0b\x0c':
            if not inws: out += ' '
            inws = True
        else:
            out += ch; inws = False
    return out

def check_filter(t: str) -> bool:
    """
    pre: len(t) <= 3 and t.isascii()
    post: _
    """
    g = IntermediateCodeGen()
    g.textFilter = (lambda symbol, text: re.sub(r'\s+', ' ', text))
    return g.genDescription([t]) == norm(t)

class NondetSet(set):
    choices = []
    def __iter__(self):
        items = sorted(set.__iter__(self)); out = []
        k = 0
        while items:
            c = NondetSet.choices[k % len(NondetSet.choices)] % len(items); k += 1
            out.append(items.pop(c))
        return iter(out)

AST = ('M', None, {'X-MIB': ['a1', 'b2', 'c3']}, [('valueDeclaration', 'n0', ('objectIdentifier', ['a1', 3]))])
import copy
def check_order(c0: int, c1: int, c2: int) -> bool:
    """
    pre: 0 <= c0 <= 5 and 0 <= c1 <= 5 and 0 <= c2 <= 5
    post: _
    """
    st = {'X-MIB': {'a1': {'oid': (1, 3)}}}
    def run(choices):
        NondetSet.choices = choices
        intermediate.set = NondetSet; symtable.set = NondetSet
        try:
            ast = copy.deepcopy(AST)
            mi, tab = SymtableCodeGen().genCode(ast, st)
            st2 = dict(st); st2['M'] = tab
            mi2, ctx = IntermediateCodeGen().genCode(ast, st2)
            return dict(ctx['imports']), mi2.imported
        finally:
            del intermediate.set; del symtable.set
    return run([c0, c1, c2]) == run([0, 0, 0])
