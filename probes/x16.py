from pysmi.codegen import jsondoc
from pysmi.codegen.jsondoc import JsonCodeGen
from pysmi.compiler import statusCompiled

class JsonStub:
    @staticmethod
    def dumps(obj, **kw): return obj
    @staticmethod
    def loads(s): return s

DIG = '0123456789'
def isarc(s):
    return 1 <= len(s) <= 2 and all(c in DIG for c in s) and (len(s) == 1 or s[0] != '0')

def covered(oid, mod, oids_section):
    parts = oid.split('.')
    for k in range(1, len(parts) + 1):
        pref = '.'.join(parts[:k])
        if pref in oids_section and mod in oids_section[pref]:
            return True
    return False

def check_index(a: str, b: str, c: str, deep: bool) -> bool:
    """
    pre: isarc(a) and isarc(b) and isarc(c)
    post: _
    """
    jsondoc.json = JsonStub
    o1 = '1.3.' + a
    o2 = '1.3.' + b + ('.' + c if deep else '')
    st = statusCompiled.setOptions(oids={o1, o2} if o1 != o2 else {o1}, identity=None, enterprise=None, compliance=[])
    out = JsonCodeGen().genIndex({'M': st})
    sec = out['oids']
    return covered(o1, 'M', sec) and covered(o2, 'M', sec)
