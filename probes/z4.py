import time, z3
N = 8; K = N + 4
# bounded string = (len, [chars]) with chars beyond len = 0
def S(name, cap): return z3.Int(name + '_n'), [z3.Int('%s_%d' % (name, i)) for i in range(cap)]
def wf(s, cap, sol, alpha=True):
    n, c = s
    sol.add(n >= 0, n <= cap)
    for i in range(cap):
        sol.add(z3.If(i < n, z3.Or(z3.And(c[i] >= 65, c[i] <= 90), z3.And(c[i] >= 97, c[i] <= 122), z3.And(c[i] >= 48, c[i] <= 57), c[i] == 45) if alpha else c[i] > 0, c[i] == 0))
def lower(s): n, c = s; return n, [z3.If(z3.And(x >= 65, x <= 90), x + 32, x) for x in c]
def upper(s): n, c = s; return n, [z3.If(z3.And(x >= 97, x <= 122), x - 32, x) for x in c]
def const(txt, cap): return z3.IntVal(len(txt)), [z3.IntVal(ord(ch)) for ch in txt] + [z3.IntVal(0)] * (cap - len(txt))
def eq(a, b):
    (n1, c1), (n2, c2) = a, b
    L = max(len(c1), len(c2)); c1 = c1 + [z3.IntVal(0)] * (L - len(c1)); c2 = c2 + [z3.IntVal(0)] * (L - len(c2))
    return z3.And(n1 == n2, *[x == y for x, y in zip(c1, c2)])
def concat_const(a, txt, cap):
    n, c = a; out = []
    for j in range(cap):
        # out[j] = c[j] if j < n else txt[j-n] if j-n < len(txt) else 0
        e = z3.IntVal(0)
        for k in range(len(txt)):
            e = z3.If(n + k == j, ord(txt[k]), e)
        out.append(z3.If(j < n, c[j] if j < len(c) else 0, e))
    return n + len(txt), out
def has_at(s, txt, i):
    n, c = s
    return z3.And(i + len(txt) <= n, *[c[i + k] == ord(txt[k]) for k in range(len(txt)) if i + k < len(c)]) if i + len(txt) <= len(c) else z3.BoolVal(False)
def find(s, txt):
    n, c = s; e = z3.IntVal(-1)
    for i in reversed(range(len(c))):
        e = z3.If(has_at(s, txt, i), i, e)
    return e
sol = z3.Solver(); sol.set('timeout', 120000)
m = S('m', N); wf(m, N, sol); sol.add(m[0] >= 1)
lo, up = lower(m), upper(m)
sol.add(find(lo, '-mib') == -1)
suf = concat_const(m, '-mib', K)
cands = [m, up, lo, upper(suf), lower(suf)]
v = S('v', K); wf(v, K, sol, alpha=False)
sol.add(z3.Or(*[eq(v, c) for c in cands]))
lv = lower(v)
sol.add(z3.Not(z3.Or(eq(lv, lo), eq(lv, concat_const(lo, '-mib', K)))))
t0 = time.time(); print(sol.check(), 'time %.1fs' % (time.time() - t0))
