from x4 import *

def check_num(par2: int, arc0: int, arc1: int, arc2: int, sp1: int, sp2: int, order: int) -> bool:
    """
    pre: 0 <= par2 <= 1 and 0 <= sp1 <= 1 and 0 <= sp2 <= 1 and 0 <= order <= 5
    pre: arc0 >= 0 and arc1 >= 0 and arc2 >= 0
    post: _
    """
    ast = build(0, par2, arc0, arc1, arc2, sp1, sp2, order)
    st = {}
    mi, tab = SymtableCodeGen().genCode(ast, st)
    st['M'] = tab
    g = IntermediateCodeGen()
    g.symbolTable = st
    e0 = (1, arc0)
    e1 = e0 + (arc1,)
    e2 = (e0 if par2 == 0 else e1) + (arc2,)
    return g.genNumericOid(tab['n0']['oid']) == e0 and g.genNumericOid(tab['n_1']['oid']) == e1 and g.genNumericOid(tab['n2']['oid']) == e2
