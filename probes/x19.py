from pysmi.lexer.smi import lexerFactory
from pysmi import error
import shim
L = lexerFactory()()
STATES = ['INITIAL', 'macro', 'choice', 'exports', 'comment']

def nl(s):
    n = 0; i = 0
    while i < len(s):
        if s[i] == '\r':
            n += 1
            if i + 1 < len(s) and s[i + 1] == '\n': i += 1
        elif s[i] == '\n': n += 1
        i += 1
    return n

def one_token(s: str, st: int) -> bool:
    """
    pre: len(s) <= 3 and 0 <= st <= 4
    post: _
    """
    L.reset(); shim.install(L.lexer)
    lx = L.lexer
    lx.input(s); lx.begin(STATES[st])
    try:
        t = lx.token()
    except error.PySmiLexerError:
        return True
    consumed = s[:lx.lexpos]
    # I1 line accounting, I3 progress
    if lx.lexpos == 0 and len(s) > 0: return False
    return lx.lineno == 1 + nl(consumed)
