import ast, sys
from pysmi.compiler import statusCompiled, statusUntouched, statusFailed, statusUnprocessed, statusMissing, statusBorrowed
SRC = open('/repo/scripts/mibdump.py').read()
tree = ast.parse(SRC)
# locate the outermost try whose orelse assigns exitCode
frag = None; consts = []
for node in tree.body:
    if isinstance(node, ast.Try) and any(isinstance(n, ast.Assign) and getattr(n.targets[0], 'id', '') == 'exitCode' for n in ast.walk(ast.Module(node.orelse, []))):
        frag = node.orelse
    if isinstance(node, ast.Assign) and getattr(node.targets[0], 'id', '').startswith('EX_'):
        consts.append(node)
assert frag is not None
code = compile(ast.Module(consts + frag, []), 'mibdump-tail', 'exec')
STAT = [statusCompiled, statusUntouched, statusFailed.setOptions(error='e'), statusUnprocessed, statusMissing, statusBorrowed.setOptions(path='p', alias='A')]

class Exit(Exception):
    def __init__(self, c): self.c = c
class Err:
    def __init__(self): self.buf = []
    def write(self, s): self.buf.append(s)
class Sys:
    def __init__(self): self.stderr = Err()
    def exit(self, c): raise Exit(c)

def check_exit(s0: int, s1: int, s2: int, verbose: bool, dry: bool) -> bool:
    """
    pre: 0 <= s0 <= 5 and 0 <= s1 <= 5 and 0 <= s2 <= 5
    post: _
    """
    def st(i):
        s = STAT[0]
        for k in range(6):
            if i == k: s = STAT[k]
        return s.setOptions(alias='A') if s == 'compiled' else s
    processed = {'A': st(s0), 'B': st(s1), 'C': st(s2)}
    fs = Sys()
    ns = {'processed': processed, 'verboseFlag': verbose, 'dryrunFlag': dry, 'sys': fs}
    try:
        exec(code, ns)
    except Exit as e:
        bad = any(i in (2, 4) for i in (s0, s1, s2))
        return (e.c == 0) == (not bad)
    return False
