from pysmi.parser.smi import parserFactory
from pysmi.parser import dialect
def tables(d):
    P = parserFactory(**d)()
    return P, P.parser
PA, A = tables(dialect.smiV2)
for nm, d in [('smiV1', dialect.smiV1), ('smiV1Relaxed', dialect.smiV1Relaxed)]:
    PB, B = tables(d)
    def prodkey(p): return (p.name, tuple(p.prod))
    # product reachability over grammar symbols
    seen = {(0, 0)}; work = [(0, 0)]; bad = []
    while work:
        a, b = work.pop()
        # terminals
        for t, x in A.action[a].items():
            y = B.action[b].get(t)
            if x > 0:
                if y is None or y <= 0: bad.append((a, b, t, x, y)); continue
                nxt = (x, y)
                if nxt not in seen: seen.add(nxt); work.append(nxt)
            elif x < 0:
                pa = A.productions[-x]
                if y is None or y >= 0 or prodkey(B.productions[-y]) != prodkey(pa):
                    bad.append((a, b, t, prodkey(pa), y and (prodkey(B.productions[-y]) if y < 0 else y)))
            else:
                if y != 0: bad.append((a, b, t, 'accept', y))
        for n, x in A.goto.get(a, {}).items():
            y = B.goto.get(b, {}).get(n)
            if y is None: bad.append((a, b, n, 'goto', None)); continue
            nxt = (x, y)
            if nxt not in seen: seen.add(nxt); work.append(nxt)
    print(nm, 'pairs', len(seen), 'incompatible', len(bad))
    for x in bad[:8]: print('   ', x)
