import ply.lex as lex
from pysmi.parser.smi import parserFactory
from pysmi import error
P = parserFactory()()

class FakeLexer:
    def __init__(self, toks):
        self.toks = list(toks); self.i = 0; self.lineno = 1
    def token(self):
        if self.i >= len(self.toks): return None
        ty, val = self.toks[self.i]; self.i += 1
        t = lex.LexToken(); t.type = ty; t.value = val; t.lineno = 1; t.lexpos = self.i
        return t
    def input(self, s): pass

def parse_tokens(toks):
    return P.parser.parse('', lexer=FakeLexer(toks))

def flatten(x, out):
    if isinstance(x, (tuple, list)):
        for e in x: flatten(e, out)
    elif isinstance(x, dict):
        for k, v in x.items():
            flatten(k, out); flatten(v, out)
    else:
        out.append(x)
    return out

def check(n: int, m: int, withdef: bool, dv: int) -> bool:
    """
    pre: 0 <= n <= 4294967295 and 0 <= m <= 4294967295 and 0 <= dv <= 4294967295
    post: _
    """
    toks = [('UPPERCASE_IDENTIFIER', 'A'), ('DEFINITIONS', 'DEFINITIONS'), ('COLON_COLON_EQUAL', '::='), ('BEGIN', 'BEGIN'),
            ('LOWERCASE_IDENTIFIER', 'x'), ('OBJECT_TYPE', 'OBJECT-TYPE'), ('SYNTAX', 'SYNTAX'), ('INTEGER', 'INTEGER'),
            ('MAX_ACCESS', 'MAX-ACCESS'), ('LOWERCASE_IDENTIFIER', 'read-only'), ('STATUS', 'STATUS'), ('LOWERCASE_IDENTIFIER', 'current')]
    if withdef:
        toks += [('DEFVAL', 'DEFVAL'), ('{', '{'), ('NUMBER', dv), ('}', '}')]
    toks += [('COLON_COLON_EQUAL', '::='), ('{', '{'), ('LOWERCASE_IDENTIFIER', 'y'), ('NUMBER', n), ('LOWERCASE_IDENTIFIER', 'z'), ('(', '('), ('NUMBER', m), (')', ')'), ('}', '}'), ('END', 'END')]
    tree = parse_tokens(toks)
    leaves = flatten(tree, [])
    ints = [l for l in leaves if isinstance(l, int) and not isinstance(l, bool)]
    exp = ([dv] if withdef else []) + [n, m]
    return ints == exp
