from typing import List, Tuple
from pysmi.compiler import MibCompiler
from pysmi.mibinfo import MibInfo
from pysmi import error

MODS = ['A', 'B', 'C']

class Src:
    def __init__(self, outcome, log):  # outcome per module: 0 notfound, 1 ok, 2 error
        self.outcome = outcome; self.log = log
    def getData(self, name, **kw):
        self.log.append(('get', name))
        o = self.outcome[MODS.index(name)]
        if o == 0:
            raise error.PySmiReaderFileNotFoundError('nf')
        if o == 2:
            raise error.PySmiReaderError('rd')
        return MibInfo(name=name, path='p/' + name, file=name, mtime=10), name

class Parser:
    def __init__(self, bad): self.bad = bad
    def parse(self, data, **kw):
        if self.bad[MODS.index(data)]:
            raise error.PySmiParserError('bad', lineno=1)
        return [data]

class Sym:
    def __init__(self, imports): self.imports = imports
    def genCode(self, tree, stm, **kw):
        i = MODS.index(tree)
        return MibInfo(name=tree, imported=tuple(m for j, m in enumerate(MODS) if self.imports[i][j])), {}

class Gen:
    def __init__(self, bad, log): self.bad = bad; self.log = log
    def genCode(self, tree, stm, **kw):
        self.log.append(('gen', tree))
        if self.bad[MODS.index(tree)]:
            raise error.PySmiCodegenError('cg')
        return MibInfo(name=tree, oid=None, imported=()), 'TEXT-' + tree

class Wr:
    def __init__(self, bad, log): self.bad = bad; self.log = log
    def putData(self, name, data, comments=(), dryRun=False):
        self.log.append(('put', name, data))
        if self.bad[MODS.index(name)]:
            raise error.PySmiWriterError('wr')

def run(src: List[int], pbad: List[bool], imp: List[List[bool]], gbad: List[bool], wbad: List[bool], ignore: bool):
    log = []
    c = MibCompiler(Parser(pbad), Gen(gbad, log), Wr(wbad, log))
    c._symbolgen = Sym(imp)
    c._get_system_info = lambda: (('?',) * 6, ('?',) * 7)
    c.addSources(Src(src, log))
    res = c.compile('A', ignoreErrors=ignore)
    return res, log

def check_c09(src: List[int], pbad: List[bool], imp: List[List[bool]], gbad: List[bool], wbad: List[bool], ignore: bool) -> bool:
    """
    pre: len(src) == 3 and len(pbad) == 3 and len(gbad) == 3 and len(wbad) == 3 and len(imp) == 3
    pre: all(len(r) == 3 for r in imp)
    pre: all(0 <= s <= 2 for s in src)
    post: _
    """
    res, log = run(src, pbad, imp, gbad, wbad, ignore)
    puts = [e for e in log if e[0] == 'put']
    anyfail = any(res[m] in ('failed', 'missing') for m in res)
    # C09: if something failed before the writing stage and not ignoring: nothing written
    prefail = any((res[m] in ('failed', 'missing')) and not any(e[1] == m for e in puts) for m in res)
    if prefail and not ignore:
        return len(puts) == 0 and all(res[m] != 'compiled' for m in res)
    return True
