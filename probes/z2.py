import re, time, keyword, z3
import re._parser as sp, re._constants as sc

def cls(items, mapch=None):
    neg = False; parts = []
    for op, av in items:
        if op is sc.NEGATE: neg = True
        elif op is sc.LITERAL: parts.append((av, av))
        elif op is sc.RANGE: parts.append(av)
        else: raise NotImplementedError(op)
    rs = [z3.Range(chr(a), chr(b)) if a != b else z3.Re(chr(a)) for a, b in parts]
    r = rs[0] if len(rs) == 1 else z3.Union(*rs)
    if neg: r = z3.Intersect(z3.AllChar(z3.ReSort(z3.StringSort())), z3.Complement(r))
    return r

def tr(nodes):
    out = []
    for op, av in nodes:
        if op is sc.LITERAL: out.append(z3.Re(chr(av)))
        elif op is sc.IN: out.append(cls(av))
        elif op is sc.MAX_REPEAT:
            lo, hi, sub = av; s = tr(list(sub))
            if lo == 0 and hi is sc.MAXREPEAT: out.append(z3.Star(s))
            elif lo == 1 and hi is sc.MAXREPEAT: out.append(z3.Plus(s))
            elif lo == 0 and hi == 1: out.append(z3.Option(s))
            else: raise NotImplementedError
        elif op is sc.BRANCH: out.append(z3.Union(*[tr(list(a)) for a in av[1]]))
        elif op is sc.SUBPATTERN: out.append(tr(list(av[3])))
        else: raise NotImplementedError(op)
    if not out: return z3.Re('')
    return out[0] if len(out) == 1 else z3.Concat(*out)

from pysmi.lexer.smi import SmiV2Lexer
lo = tr(list(sp.parse(SmiV2Lexer.t_LOWERCASE_IDENTIFIER.__doc__)))
up = tr(list(sp.parse(SmiV2Lexer.t_UPPERCASE_IDENTIFIER.__doc__)))
pyid = tr(list(sp.parse(r'[A-Za-z_][A-Za-z0-9_]*')))
kw = z3.Union(*[z3.Re(k) for k in keyword.kwlist])
safe = z3.Intersect(pyid, z3.Complement(kw))
t0 = time.time()
s = z3.String('s'); t = z3.String('t')
sol = z3.Solver()
# t = s with '-' replaced by '_': model via lengths equal & per-position (bounded 6)
N = 6
sol.add(z3.InRe(s, lo), z3.Length(s) <= N, z3.Length(t) == z3.Length(s))
for i in range(N):
    ci = z3.SubString(s, i, 1); di = z3.SubString(t, i, 1)
    sol.add(z3.Implies(i < z3.Length(s), di == z3.If(ci == '-', z3.StringVal('_'), ci)))
sol.add(z3.Not(z3.InRe(t, safe)))
# exclude identifiers ending with '-' (lexer rejects) 
sol.add(z3.Not(z3.SuffixOf('-', s)))
seen = []
for k in range(4):
    r = sol.check()
    if str(r) != 'sat': print(r); break
    m = sol.model(); v = m[s].as_string(); seen.append(v); sol.add(s != v)
print('counterexamples', seen, 'time %.1fs' % (time.time() - t0))
# text one-liner site: [^"]* subset of [^"\\\n\r]* ?
txt = tr(list(sp.parse(r'[^\"]*'))); safe1 = tr(list(sp.parse(r'[^\"\\\n\r]*')))
sol = z3.Solver(); sol.add(z3.InRe(s, txt), z3.Not(z3.InRe(s, safe1)))
t0 = time.time(); print(sol.check(), repr(sol.model()[s].as_string()), 'time %.1fs' % (time.time() - t0))
