def e1(u: str) -> bool:
    """
    pre: len(u) <= 2
    post: _
    """
    return ('q' + u + 'q')[1:-1] == u

def e2(u: str) -> bool:
    """
    pre: len(u) <= 2
    post: _
    """
    s = 'q' + u + 'q'
    return s[1:len(s) - 1] == u

def e3(u: str) -> bool:
    """
    pre: len(u) <= 2
    post: _
    """
    s = 'q' + u + 'q'
    t = s[1:-1]
    return len(t) == len(u)

def e4(u: str) -> bool:
    """
    pre: 2 <= len(u) <= 4
    post: _
    """
    t = u[1:-1]
    return u[0] + t + u[-1] == u
