import errno
from pysmi.writer import localfile
from pysmi import error

class FS:
    """In-memory single-directory FS model + fault schedule."""
    def __init__(self, faults, shortn, dest_exists):
        self.files = {}          # path -> bytes
        self.dirs = {'/d'}
        self.fds = {}
        self.faults = faults     # dict site -> bool
        self.shortn = shortn
        self.tmpn = 0
        if dest_exists:
            self.files['/d/M'] = b'OLD'

class OsPath:
    def __init__(self, fs): self.fs = fs
    def exists(self, p): return p in self.fs.files or p in self.fs.dirs
    def join(self, a, b): return a + '/' + b
    def normpath(self, p): return p

class Os:
    def __init__(self, fs):
        self.fs = fs; self.path = OsPath(fs)
    def makedirs(self, p):
        if self.fs.faults['makedirs']: raise OSError(errno.EACCES, 'x')
        self.fs.dirs.add(p)
    def write(self, fd, data):
        if self.fs.faults['write']: raise OSError(errno.ENOSPC, 'x')
        n = len(data)
        if self.fs.faults['short']:
            n = self.fs.shortn
        self.fs.files[self.fs.fds[fd]] += data[:n]
        return n
    def close(self, fd):
        if self.fs.faults['close']: raise OSError(errno.EIO, 'x')
        del self.fs.fds[fd]
    def rename(self, a, b):
        if self.fs.faults['rename']: raise OSError(errno.EACCES, 'x')
        self.fs.files[b] = self.fs.files.pop(a)
    def unlink(self, p):
        del self.fs.files[p]

class Tempfile:
    def __init__(self, fs): self.fs = fs
    def mkstemp(self, dir=None):
        if self.fs.faults['mkstemp']: raise OSError(errno.EACCES, 'x')
        self.fs.tmpn += 1
        p = dir + '/tmp%d' % self.fs.tmpn
        self.fs.files[p] = b''
        self.fs.fds[3] = p
        return 3, p

def check_put(site: int, shortn: int, dest_exists: bool, dir_exists: bool, data: str) -> bool:
    """
    pre: 0 <= site <= 6 and 0 <= shortn and len(data) <= 3 and data.isascii()
    post: _
    """
    names = ['makedirs', 'mkstemp', 'write', 'short', 'close', 'rename']
    faults = {n: (i == site) for i, n in enumerate(names)}
    fs = FS(faults, shortn, dest_exists)
    if not dir_exists:
        fs.dirs.clear(); fs.files.clear()
    old = dict(fs.files)
    localfile.os = Os(fs); localfile.tempfile = Tempfile(fs)
    w = localfile.FileWriter.__new__(localfile.FileWriter)
    w._path = '/d'
    new = data.encode('utf-8')
    try:
        w.putData('M', data)
        ok = True
    except error.PySmiWriterError:
        ok = False
    cur = fs.files
    if any(k.startswith('/d/tmp') for k in cur): return False
    if ok:
        return cur.get('/d/M') == new
    return cur.get('/d/M') == old.get('/d/M')
