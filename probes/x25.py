from x10 import parse_tokens
from pysmi.codegen.symtable import SymtableCodeGen
from pysmi.codegen.intermediate import IntermediateCodeGen

def run(qdesc, qunits, status, access, withunits, withref, gentexts, arc, lo, hi):
    def num(n): return ('NUMBER', n) if n >= 0 else ('NEGATIVENUMBER', n)
    toks = [('UPPERCASE_IDENTIFIER', 'M'), ('DEFINITIONS', 'DEFINITIONS'), ('COLON_COLON_EQUAL', '::='), ('BEGIN', 'BEGIN'),
            ('LOWERCASE_IDENTIFIER', 'x-y'), ('OBJECT_TYPE', 'OBJECT-TYPE'), ('SYNTAX', 'SYNTAX'), ('INTEGER32', 'Integer32'),
            ('(', '('), num(lo), ('DOT_DOT', '..'), num(hi), (')', ')')]
    if withunits: toks += [('UNITS', 'UNITS'), ('QUOTED_STRING', qunits)]
    toks += [('MAX_ACCESS', 'MAX-ACCESS'), ('LOWERCASE_IDENTIFIER', access), ('STATUS', 'STATUS'), ('LOWERCASE_IDENTIFIER', status),
             ('DESCRIPTION', 'DESCRIPTION'), ('QUOTED_STRING', qdesc)]
    if withref: toks += [('REFERENCE', 'REFERENCE'), ('QUOTED_STRING', '"r"')]
    toks += [('COLON_COLON_EQUAL', '::='), ('{', '{'), ('LOWERCASE_IDENTIFIER', 'iso'), ('NUMBER', arc), ('}', '}'), ('END', 'END')]
    tree = parse_tokens(toks)[1][0]
    st = {}
    mi, tab = SymtableCodeGen().genCode(tree, st); st['M'] = tab
    mi, ctx = IntermediateCodeGen().genCode(tree, st, genTexts=gentexts, textFilter=lambda s, t: t)
    return ctx

def check_desc(qdesc: str, withunits: bool, withref: bool, gentexts: bool) -> bool:
    """
    pre: 2 <= len(qdesc) <= 5 and qdesc[0] == '"' and qdesc[len(qdesc) - 1] == '"' and '"' not in qdesc[1:len(qdesc) - 1]
    post: _
    """
    desc = qdesc[1:len(qdesc) - 1]
    ctx = run(qdesc, '"u"', 'current', 'read-only', withunits, withref, gentexts, 3, 0, 5)
    r = ctx['x_y']
    if gentexts and len(desc) > 0:
        if 'description' not in r: return False
        return r['description'] == desc
    return 'description' not in r

def check_ints(arc: int, lo: int, hi: int, withunits: bool, gentexts: bool) -> bool:
    """
    pre: 0 <= arc <= 4294967295 and -4294967295 <= lo <= hi <= 4294967295
    post: _
    """
    ctx = run('"d"', '"u"', 'current', 'read-only', withunits, False, gentexts, arc, lo, hi)
    rr = ctx['x_y']['syntax']['constraints']['range']
    return len(rr) == 1 and rr[0]['min'] == lo and rr[0]['max'] == hi
