from x10 import *
TOKS = [('UPPERCASE_IDENTIFIER', 'A'), ('DEFINITIONS', 'DEFINITIONS'), ('COLON_COLON_EQUAL', '::='), ('BEGIN', 'BEGIN'),
        ('LOWERCASE_IDENTIFIER', 'x'), ('OBJECT_TYPE', 'OBJECT-TYPE'), ('SYNTAX', 'SYNTAX'), ('INTEGER', 'INTEGER'),
        ('MAX_ACCESS', 'MAX-ACCESS'), ('LOWERCASE_IDENTIFIER', 'read-only'), ('STATUS', 'STATUS'), ('LOWERCASE_IDENTIFIER', 'current'),
        ('COLON_COLON_EQUAL', '::='), ('{', '{'), ('LOWERCASE_IDENTIFIER', 'y'), ('NUMBER', 1), ('}', '}'), ('END', 'END')]
ALLT = sorted(P.tokens) + list('[]{}():;,-.|')

def pick(i):
    # decision tree over token types
    lo, hi = 0, len(ALLT) - 1
    while lo < hi:
        mid = (lo + hi) // 2
        if i <= mid: hi = mid
        else: lo = mid + 1
    return ALLT[lo]

def check_prefix(k: int) -> bool:
    """
    pre: 1 <= k < 18
    post: _
    """
    toks = [t for i, t in enumerate(TOKS) if i < k]
    try:
        r = parse_tokens(toks)
    except error.PySmiParserError:
        return True
    return False

def check_replace(k: int, ty: int) -> bool:
    """
    pre: 0 <= k < 18 and 0 <= ty < 103
    post: _
    """
    newt = pick(ty)
    toks = [(newt, 'v') if i == k else t for i, t in enumerate(TOKS)]
    try:
        r = parse_tokens(toks)
    except error.PySmiParserError as e:
        return e.lineno == 1
    return r is not None
