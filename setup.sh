#!/bin/sh
# Build the overlay venv (offline): /venv's packages + crosshair-tool + z3-solver from the wheelhouse.
set -e
HERE="$(cd "$(dirname "$0")" && pwd)"
cd "$HERE"
if [ ! -x .venv/bin/python ] || ! .venv/bin/python -c "import crosshair, z3, ply, jinja2" 2>/dev/null; then
  rm -rf .venv
  /venv/bin/python -m venv .venv
  echo /venv/lib/python3.12/site-packages > .venv/lib/python3.12/site-packages/overlay.pth
  PIP_NO_INDEX=1 .venv/bin/pip install -q --no-index --find-links /opt/veriftools/wheels crosshair-tool z3-solver
fi
.venv/bin/python -c "import crosshair, z3, ply, jinja2; print('setup ok', crosshair.__version__, z3.get_version_string())"
