"""Direct SMT obligations (engine RX/BSTR/LR helpers): small translators from Python AST / regex AST to z3."""
import ast
import time

import z3


class Untranslatable(Exception):
    pass


def find_function(tree, name):
    for node in ast.walk(tree):
        if isinstance(node, (ast.FunctionDef,)) and node.name == name:
            return node
    return None


def str_expr(node, env):
    """Python string-valued / bool-valued expression -> z3 term. env: name -> z3 term."""
    if isinstance(node, ast.Constant) and isinstance(node.value, str):
        return z3.StringVal(node.value)
    if isinstance(node, ast.Name):
        if node.id in env:
            return env[node.id]
        raise Untranslatable('free name %s' % node.id)
    if isinstance(node, ast.BinOp) and isinstance(node.op, ast.Add):
        return z3.Concat(str_expr(node.left, env), str_expr(node.right, env))
    if isinstance(node, ast.Call) and isinstance(node.func, ast.Attribute):
        m = node.func.attr
        recv = str_expr(node.func.value, env)
        args = [str_expr(a, env) for a in node.args]
        if m == 'startswith' and len(args) == 1:
            return z3.PrefixOf(args[0], recv)
        if m == 'endswith' and len(args) == 1:
            return z3.SuffixOf(args[0], recv)
        raise Untranslatable('method %s' % m)
    if isinstance(node, ast.Compare) and len(node.ops) == 1:
        l = str_expr(node.left, env)
        r = str_expr(node.comparators[0], env)
        if isinstance(node.ops[0], ast.Eq):
            return l == r
        if isinstance(node.ops[0], ast.NotEq):
            return l != r
        if isinstance(node.ops[0], ast.In):
            return z3.Contains(r, l)
    if isinstance(node, ast.BoolOp):
        vals = [str_expr(v, env) for v in node.values]
        return z3.And(*vals) if isinstance(node.op, ast.And) else z3.Or(*vals)
    if isinstance(node, ast.UnaryOp) and isinstance(node.op, ast.Not):
        return z3.Not(str_expr(node.operand, env))
    raise Untranslatable(ast.dump(node)[:120])


def oid_language():
    """dotted decimal OIDs: [0-9]+(\\.[0-9]+)*"""
    digit = z3.Range('0', '9')
    num = z3.Plus(digit)
    return z3.Concat(num, z3.Star(z3.Concat(z3.Re('.'), num)))


def check(solver_asserts, timeout_ms=60000):
    """returns (verdict 'unsat'|'sat'|'unknown', model or None, seconds)"""
    s = z3.Solver()
    s.set('timeout', timeout_ms)
    for a in solver_asserts:
        s.add(a)
    t0 = time.time()
    r = s.check()
    dt = time.time() - t0
    return str(r), (s.model() if str(r) == 'sat' else None), dt, s.to_smt2()
