"""Direct SMT obligations (engine RX/BSTR/LR helpers): small translators from Python AST / regex AST to z3."""
import ast
import time

import z3


class Untranslatable(Exception):
    pass


def find_function(tree, name):
    for node in ast.walk(tree):
        if isinstance(node, (ast.FunctionDef,)) and node.name == name:
            return node
    return None


def str_expr(node, env):
    """Python string-valued / bool-valued expression -> z3 term. env: name -> z3 term."""
    if isinstance(node, ast.Constant) and isinstance(node.value, str):
        return z3.StringVal(node.value)
    if isinstance(node, ast.Name):
        if node.id in env:
            return env[node.id]
        raise Untranslatable('free name %s' % node.id)
    if isinstance(node, ast.BinOp) and isinstance(node.op, ast.Add):
        return z3.Concat(str_expr(node.left, env), str_expr(node.right, env))
    if isinstance(node, ast.Call) and isinstance(node.func, ast.Attribute):
        m = node.func.attr
        recv = str_expr(node.func.value, env)
        args = [str_expr(a, env) for a in node.args]
        if m == 'startswith' and len(args) == 1:
            return z3.PrefixOf(args[0], recv)
        if m == 'endswith' and len(args) == 1:
            return z3.SuffixOf(args[0], recv)
        raise Untranslatable('method %s' % m)
    if isinstance(node, ast.Compare) and len(node.ops) == 1:
        l = str_expr(node.left, env)
        r = str_expr(node.comparators[0], env)
        if isinstance(node.ops[0], ast.Eq):
            return l == r
        if isinstance(node.ops[0], ast.NotEq):
            return l != r
        if isinstance(node.ops[0], ast.In):
            return z3.Contains(r, l)
    if isinstance(node, ast.BoolOp):
        vals = [str_expr(v, env) for v in node.values]
        return z3.And(*vals) if isinstance(node.op, ast.And) else z3.Or(*vals)
    if isinstance(node, ast.UnaryOp) and isinstance(node.op, ast.Not):
        return z3.Not(str_expr(node.operand, env))
    raise Untranslatable(ast.dump(node)[:120])


def oid_language():
    """dotted decimal OIDs: [0-9]+(\\.[0-9]+)*"""
    digit = z3.Range('0', '9')
    num = z3.Plus(digit)
    return z3.Concat(num, z3.Star(z3.Concat(z3.Re('.'), num)))


def check(solver_asserts, timeout_ms=60000):
    """returns (verdict 'unsat'|'sat'|'unknown', model or None, seconds)"""
    s = z3.Solver()
    s.set('timeout', timeout_ms)
    for a in solver_asserts:
        s.add(a)
    t0 = time.time()
    r = s.check()
    dt = time.time() - t0
    return str(r), (s.model() if str(r) == 'sat' else None), dt, s.to_smt2()


# ---- RX-lang: Python regular expression (re._parser AST) -> z3 regular expression ---------------------------

def re_to_z3(pattern, flags=0):
    """translate a Python regex (as text, or as an already parsed re._parser node list) into a z3 RegEx over strings; raises Untranslatable for constructs
    outside the supported subset (look-around, back-references, anchors inside, ...)"""
    import re
    try:
        import re._parser as sre_parse
        import re._constants as sre
    except ImportError:            # Python < 3.11
        import sre_parse
        import sre_constants as sre
    tree = pattern if not isinstance(pattern, str) else sre_parse.parse(pattern, flags)
    dotall = bool(flags & re.DOTALL)
    S = z3.StringSort()
    RS = z3.ReSort(S)
    anychar = z3.AllChar(RS)

    def char(c):
        return z3.Re(z3.StringVal(chr(c)))

    def cls(items):
        neg = False
        parts = []
        for op, av in items:
            if op == sre.NEGATE:
                neg = True
            elif op == sre.LITERAL:
                parts.append(char(av))
            elif op == sre.RANGE:
                parts.append(z3.Range(chr(av[0]), chr(av[1])))
            elif op == sre.CATEGORY:
                if av == sre.CATEGORY_DIGIT:
                    parts.append(z3.Range('0', '9'))
                elif av == sre.CATEGORY_SPACE:
                    parts.extend([char(ord(c)) for c in ' \t\n\r\f\v'])
                else:
                    raise Untranslatable('category %s' % av)
            else:
                raise Untranslatable('class item %s' % op)
        u = parts[0] if len(parts) == 1 else z3.Union(*parts)
        if neg:
            return z3.Intersect(anychar, z3.Complement(u))
        return u

    def seqn(items):
        out = [node(op, av) for op, av in items]
        if not out:
            return z3.Re(z3.StringVal(''))
        if len(out) == 1:
            return out[0]
        return z3.Concat(*out)

    def node(op, av):
        if op == sre.LITERAL:
            return char(av)
        if op == sre.NOT_LITERAL:
            return z3.Intersect(anychar, z3.Complement(char(av)))
        if op == sre.ANY:
            if dotall:
                return anychar
            return z3.Intersect(anychar, z3.Complement(char(10)))
        if op == sre.IN:
            return cls(av)
        if op in (sre.MAX_REPEAT, sre.MIN_REPEAT):
            lo, hi, sub = av
            r = seqn(sub)
            if hi == sre.MAXREPEAT:
                if lo == 0:
                    return z3.Star(r)
                if lo == 1:
                    return z3.Plus(r)
                return z3.Concat(z3.Loop(r, lo, lo), z3.Star(r))
            if lo == 0 and hi == 1:
                return z3.Option(r)
            return z3.Loop(r, lo, hi)
        if op == sre.SUBPATTERN:
            return seqn(av[3])
        if op == sre.BRANCH:
            alts = [seqn(a) for a in av[1]]
            return alts[0] if len(alts) == 1 else z3.Union(*alts)
        raise Untranslatable('regex op %s' % op)

    return seqn(tree)


def split_trailing_lookahead(nodes):
    """(core nodes, nodes of the character class of a trailing negative look-ahead `(?![...])` or None)"""
    try:
        import re._constants as sre
    except ImportError:
        import sre_constants as sre
    nodes = list(nodes)
    if nodes and nodes[-1][0] is sre.ASSERT_NOT:
        direction, sub = nodes[-1][1]
        sub = list(sub)
        if direction == 1 and len(sub) == 1 and sub[0][0] in (sre.IN, sre.LITERAL):
            return nodes[:-1], sub
        raise Untranslatable('look-ahead other than a trailing negative single-character class')
    return nodes, None


def re_prefix_to_z3(pattern_nodes, flags=0):
    """the language { w : the rule matches a PREFIX of w } - what matters for first-match pre-emption. A trailing negative
    look-ahead `R(?![C])` matches a prefix p of w iff p in L(R) and the next character of w (if any) is not in C."""
    S = z3.StringSort()
    any_ = z3.AllChar(z3.ReSort(S))
    core, la = split_trailing_lookahead(pattern_nodes)
    r = re_to_z3(core, flags)
    if la is None:
        return z3.Concat(r, z3.Star(any_))
    c = re_to_z3(la, flags)
    notc = z3.Intersect(any_, z3.Complement(c))
    return z3.Concat(r, z3.Union(z3.Re(z3.StringVal('')), z3.Concat(notc, z3.Star(any_))))


def re_whole_to_z3(pattern_nodes, flags=0):
    """the language of complete lexemes of a rule (a trailing look-ahead is satisfied at the end of the text)"""
    core, la = split_trailing_lookahead(pattern_nodes)
    return re_to_z3(core, flags)


def rule_pattern(lexer_cls, rule):
    """the pattern text of a t_* rule of the real lexer class (docstring of the function or string attribute)"""
    r = getattr(lexer_cls, rule)
    return r if isinstance(r, str) else r.__doc__


def master_rules(plylexer, state='INITIAL'):
    """ordered (rule name, parsed node list) of the master regex ply built for a lexer state"""
    try:
        import re._parser as sre_parse
        import re._constants as sre
    except ImportError:
        import sre_parse
        import sre_constants as sre
    out = []
    for cre, names in plylexer.lexstatere[state]:
        pat = getattr(cre, 'pattern')
        tree = sre_parse.parse(pat, cre.flags)
        top = list(tree)
        alts = top[0][1][1] if (len(top) == 1 and top[0][0] is sre.BRANCH) else [top]
        byid = dict((v, k) for k, v in cre.groupindex.items()) if hasattr(cre, 'groupindex') else {}
        for alt in alts:
            alt = list(alt)
            gid = alt[0][1][0]
            out.append((byid.get(gid, 'group%s' % gid), list(alt[0][1][3]), cre.flags))
    return out
