"""One CrossHair condition (or one shard of it) per process.

usage: xh_worker.py <spec.json>
spec: {module, fn, fixed: {arg: value}, extra_pre: [expr], post: "_" | "False",
       timeout: seconds (CPU, per condition), scratch: dir, mode: "symbolic"|"concrete",
       args: {...} (concrete mode)}

The last line written to stdout is a JSON record:
  {verdict, message, args, paths, confirmed_paths, cpu_s, wall_s}
verdict in CONFIRMED | REFUTED | UNKNOWN | PRE_UNSAT | ERROR    (symbolic mode)
           PASS | FAIL | ERROR                                   (concrete mode)
"""
import ast
import collections
import importlib
import inspect
import json
import os
import sys
import time
import traceback

HERE = os.path.dirname(os.path.abspath(__file__))
VERIF = os.path.dirname(HERE)
sys.path.insert(0, VERIF)
sys.path.insert(0, os.environ.get('VERIF_REPO', '/repo'))


def pre_lines(fn):
    out = []
    for line in (fn.__doc__ or '').splitlines():
        line = line.strip()
        if line.startswith('requires:'):
            out.append(line[len('requires:'):].strip())
    return out


def raises_lines(fn):
    out = []
    for line in (fn.__doc__ or '').splitlines():
        line = line.strip()
        if line.startswith('may-raise:'):
            out.append('raises:' + line[len('may-raise:'):])
    return out


def make_wrapper(spec, fn):
    """Write a module with one function whose free arguments are those of fn
    minus the fixed ones; fixed values are module globals so that the original
    pre: lines still evaluate."""
    sig = inspect.signature(fn)
    fixed = spec.get('fixed') or {}
    free = [p for p in sig.parameters.values() if p.name not in fixed]
    for p in free:
        if p.annotation not in (int, bool, str):
            raise TypeError('harness arguments must be int/bool/str: %s' % p)
    params = ', '.join('%s: %s' % (p.name, p.annotation.__name__) for p in free)
    call = ', '.join('%s=%s' % (n, n) for n in sig.parameters)
    pres = pre_lines(fn) + list(spec.get('extra_pre') or [])
    doc = ''.join('    pre: %s\n' % p for p in pres)
    doc += ''.join('    %s\n' % r for r in raises_lines(fn))
    doc += '    post: %s\n' % spec.get('post', '_')
    src = 'import %s as _m\n' % spec['module']
    for k, v in fixed.items():
        src += '%s = %r\n' % (k, v)
    # names used by pre: expressions of the harness module stay visible
    src += 'from %s import *\n' % spec['module']
    src += 'def cond(%s) -> bool:\n    """\n%s    """\n    return _m.%s(%s)\n' % (
        params, doc, spec['fn'], call)
    # CrossHair short-circuits calls to functions that carry PEP316 contracts (it may assume their
    # postcondition instead of executing the body - observed to lose counterexamples). Harness functions
    # therefore state their bounds as 'requires:' lines, which CrossHair does not recognise; only the
    # generated wrapper carries a contract.
    import types
    hm = sys.modules[spec['module']]
    for v in list(vars(hm).values()):
        if isinstance(v, types.FunctionType) and v.__doc__ and ('post:' in v.__doc__ or 'pre:' in v.__doc__):
            raise TypeError('harness function %s carries a PEP316 contract; use requires:' % v.__name__)
    name = 'xhw_%d_%s' % (os.getpid(), os.urandom(4).hex())
    path = os.path.join(spec['scratch'], name + '.py')
    with open(path, 'w') as f:
        f.write(src)
    sys.path.insert(0, spec['scratch'])
    mod = importlib.import_module(name)
    mod.cond._free_names = [p.name for p in free]
    return mod.cond


def parse_args(message):
    """Extract keyword arguments from '... when calling cond(a=1, s='x') ...'."""
    key = 'when calling '
    i = message.find(key)
    if i < 0:
        return None
    text = message[i + len(key):]
    ends = [j for j, c in enumerate(text) if c == ')']
    for j in ends:
        cand = text[:j + 1]
        try:
            node = ast.parse(cand, mode='eval').body
        except SyntaxError:
            continue
        if isinstance(node, ast.Call):
            try:
                out = {}
                sigless = []
                for a in node.args:
                    sigless.append(ast.literal_eval(a))
                for kw in node.keywords:
                    out[kw.arg] = ast.literal_eval(kw.value)
                if sigless:
                    out['__positional__'] = sigless
                return out
            except Exception:
                return None
    return None


def named_args(args, cond):
    if args is None:
        return None
    pos = args.pop('__positional__', [])
    for n, v in zip(cond._free_names, pos):
        args[n] = v
    return args


def run_symbolic(spec):
    from crosshair.core import analyze_function, analyze_calltree
    from crosshair.options import AnalysisOptionSet, DEFAULT_OPTIONS, AnalysisKind
    from crosshair.condition_parser import condition_parser
    from crosshair.statespace import MessageType, VerificationStatus
    from crosshair.core_and_libs import standalone_statespace  # noqa: F401  (loads lib patches)

    mod = importlib.import_module(spec['module'])
    fn = getattr(mod, spec['fn'])
    # warm-up: run the module's concrete self-tests once, untraced, so that parser tables, lexer caches and
    # lazily built constants exist before symbolic execution starts (and the harness is validated again)
    if hasattr(mod, 'selftests'):
        for sfn, sargs in mod.selftests(spec.get('prop')):
            if True:
                try:
                    getattr(mod, sfn)(**sargs)      # result judged by the runner; here it only warms caches
                except Exception:
                    pass
    if hasattr(mod, 'warmup'):
        mod.warmup(dict(spec.get('fixed') or {}))       # untraced construction of parsers etc. this shard needs
    cond = make_wrapper(spec, fn)
    stats = collections.Counter()
    opts = AnalysisOptionSet(per_condition_timeout=float(spec['timeout']),
                             analysis_kind=(AnalysisKind.PEP316,),
                             report_all=True, stats=stats)
    if spec.get('per_path_timeout'):
        opts = opts.overlay(AnalysisOptionSet(per_path_timeout=float(spec['per_path_timeout'])))
    checkables = analyze_function(cond, opts)
    if len(checkables) != 1:
        return dict(verdict='ERROR', message='expected one postcondition, got %d' % len(checkables))
    ck = checkables[0]
    if not hasattr(ck, 'conditions'):
        return dict(verdict='ERROR', message='; '.join(m.message for m in ck.analyze()))
    t0 = time.process_time()
    ck.options.deadline = t0 + ck.options.per_condition_timeout
    with condition_parser(ck.options.analysis_kind):
        analysis = analyze_calltree(ck.options, ck.conditions)
    cpu = time.process_time() - t0
    rec = dict(paths=stats.get('num_paths', 0), confirmed_paths=analysis.num_confirmed_paths, cpu_s=round(cpu, 3))
    st = analysis.verification_status
    msgs = list(analysis.messages)
    if any(m.state == MessageType.PRE_UNSAT for m in msgs):
        rec.update(verdict='PRE_UNSAT', message=msgs[0].message)
    elif st is VerificationStatus.CONFIRMED:
        rec.update(verdict='CONFIRMED', message='Confirmed over all paths.')
    elif st is VerificationStatus.UNKNOWN:
        rec.update(verdict='UNKNOWN', message='Not confirmed.')
    else:
        m = msgs[0] if msgs else None
        rec.update(verdict='REFUTED', message=m.message if m else '', kind=m.state.name if m else '',
                   args=named_args(parse_args(m.message), cond) if m else None,
                   traceback=(m.traceback or '')[-1500:] if m else '')
    return rec


def run_concrete(spec):
    mod = importlib.import_module(spec['module'])
    fn = getattr(mod, spec['fn'])
    args = dict(spec.get('fixed') or {})
    args.update(spec.get('args') or {})
    try:
        r = fn(**args)
    except Exception:
        return dict(verdict='FAIL', message='exception: ' + traceback.format_exc()[-1500:])
    return dict(verdict='PASS' if r is True else 'FAIL', message='returned %r' % (r,))


def main():
    with open(sys.argv[1]) as f:
        spec = json.load(f)
    t0 = time.time()
    try:
        if spec.get('mode') == 'concrete':
            rec = run_concrete(spec)
        else:
            rec = run_symbolic(spec)
    except BaseException:
        rec = dict(verdict='ERROR', message=traceback.format_exc()[-3000:])
    rec['wall_s'] = round(time.time() - t0, 3)
    sys.stdout.flush()
    print('\n@@RESULT@@' + json.dumps(rec, default=repr))


if __name__ == '__main__':
    main()
