"""usage: lr_worker.py '<options A json>' '<options B json>'  -> @@RESULT@@{json}"""
import json
import os
import sys

HERE = os.path.dirname(os.path.abspath(__file__))
sys.path.insert(0, os.path.dirname(HERE))
sys.path.insert(0, os.environ.get('VERIF_REPO', '/repo'))


class _Tok(object):
    def __init__(self, type, value, lineno):
        self.type, self.value, self.lineno, self.lexpos = type, value, lineno, 0


class _Lex(object):
    def __init__(self, types):
        self.types = types
        self.i = 0
        self.lineno = 1

    def input(self, s):
        pass

    def token(self):
        if self.i >= len(self.types):
            return None
        t = self.types[self.i]
        self.i += 1
        v = 1 if 'NUMBER' in t else ('"zq"' if t == 'QUOTED_STRING' else 'zq%d' % self.i)
        return _Tok(t, v, self.i)


def error_position(opts, types):
    """position (1-based) at which the real parser built with `opts` rejects the token sequence; None if it only
    complains about the end of input; 0 if it accepts"""
    from pysmi.parser.smi import parserFactory
    from pysmi import error
    p = parserFactory(**opts)()
    p.lexer.lexer.lineno = len(types) + 1
    try:
        p.parser.parse(lexer=_Lex(types))
        return 0
    except error.PySmiParserError as e:
        return None if e.lineno == len(types) + 1 else e.lineno


def replay(oa, ob, types):
    """True iff A does not reject inside the prefix while B does (the prefix is viable for A only)"""
    ea = error_position(oa, types)
    eb = error_position(ob, types)
    return (ea is None or ea == 0) and (eb is not None and eb != 0)


def main():
    oa, ob = json.loads(sys.argv[1]), json.loads(sys.argv[2])
    from engine import lr
    PA, A = lr.tables(oa)
    PB, B = lr.tables(ob)
    r = lr.simulate(A, B)
    if r['verdict'] == 'sat':
        w = lr.find_witness(A, B)
        if w:
            prefix, t, why = w
            types = list(prefix) + [t]
            r['witness'] = dict(tokens=types, why=why, confirmed=replay(oa, ob, types))
    print('@@RESULT@@' + json.dumps(r))


if __name__ == '__main__':
    main()
