"""Engine BSTR: bounded strings as (length Int, Int array) in z3, and a small path-forking symbolic interpreter for
straight-line Python string kernels (assignments, if/else, list append/extend, upper/lower/find, slicing by an Int,
concatenation with constants, list comprehensions over harness-length lists).

Anything outside the supported subset raises Unsupported (the obligation becomes inconclusive, never green).
"""
import ast

import z3


class Unsupported(Exception):
    pass


class BStr(object):
    """bounded string: n = length, c = list of `cap` Int terms (0 beyond the length)"""

    def __init__(self, n, c):
        self.n = n
        self.c = c

    @property
    def cap(self):
        return len(self.c)


def fresh(name, cap):
    return BStr(z3.Int(name + '_n'), [z3.Int('%s_%d' % (name, i)) for i in range(cap)])


def wellformed(s, charset):
    """charset: function Int term -> Bool term"""
    cs = [s.n >= 0, s.n <= s.cap]
    for i in range(s.cap):
        cs.append(z3.If(i < s.n, charset(s.c[i]), s.c[i] == 0))
    return z3.And(*cs)


def const(txt, cap=None):
    cap = cap if cap is not None else len(txt)
    return BStr(z3.IntVal(len(txt)), [z3.IntVal(ord(ch)) for ch in txt] + [z3.IntVal(0)] * (cap - len(txt)))


def lower(s):
    return BStr(s.n, [z3.If(z3.And(x >= 65, x <= 90), x + 32, x) for x in s.c])


def upper(s):
    return BStr(s.n, [z3.If(z3.And(x >= 97, x <= 122), x - 32, x) for x in s.c])


def pad(s, cap):
    return BStr(s.n, s.c + [z3.IntVal(0)] * (cap - s.cap)) if cap > s.cap else s


def eq(a, b):
    L = max(a.cap, b.cap)
    a, b = pad(a, L), pad(b, L)
    return z3.And(a.n == b.n, *[x == y for x, y in zip(a.c, b.c)])


def concat_const(a, txt):
    cap = a.cap + len(txt)
    out = []
    for j in range(cap):
        e = z3.IntVal(0)
        for k in range(len(txt)):
            e = z3.If(a.n + k == j, ord(txt[k]), e)
        out.append(z3.If(j < a.n, a.c[j] if j < a.cap else z3.IntVal(0), e))
    return BStr(a.n + len(txt), out)


def has_at(s, txt, i):
    if i + len(txt) > s.cap:
        return z3.BoolVal(False)
    return z3.And(i + len(txt) <= s.n, *[s.c[i + k] == ord(txt[k]) for k in range(len(txt))])


def find(s, txt):
    e = z3.IntVal(-1)
    for i in reversed(range(s.cap)):
        e = z3.If(has_at(s, txt, i), i, e)
    return e


def prefix(s, k):
    """s[:k] for an Int term k with 0 <= k (Python semantics for k >= 0: min(k, len))"""
    n = z3.If(k < s.n, k, s.n)
    return BStr(n, [z3.If(i < n, s.c[i], 0) for i in range(s.cap)])


def endswith_const(s, txt):
    alts = []
    for n in range(len(txt), s.cap + 1):
        alts.append(z3.And(s.n == n, *[s.c[n - len(txt) + k] == ord(txt[k]) for k in range(len(txt))]))
    return z3.Or(*alts) if alts else z3.BoolVal(False)


# ---- interpreter ---------------------------------------------------------------------------------------------

class Path(object):
    def __init__(self, env, conds):
        self.env = env
        self.conds = conds
        self.raised = None
        self.ret = None

    def fork(self):
        env = dict((k, list(v) if isinstance(v, list) else v) for k, v in self.env.items())
        return Path(env, list(self.conds))


class Interp(object):
    """self_attrs: name -> z3 Bool/Int/BStr for `self.<name>`; args: name -> value"""

    def __init__(self, self_attrs):
        self.self_attrs = self_attrs

    def run(self, fn_node, args):
        paths = [Path(dict(args), [])]
        for st in fn_node.body:
            nxt = []
            for p in paths:
                if p.raised or p.ret is not None:
                    nxt.append(p)
                else:
                    nxt.extend(self.stmt(st, p))
            paths = nxt
        return paths

    def block(self, stmts, p):
        paths = [p]
        for st in stmts:
            nxt = []
            for q in paths:
                if q.raised or q.ret is not None:
                    nxt.append(q)
                else:
                    nxt.extend(self.stmt(st, q))
            paths = nxt
        return paths

    def stmt(self, st, p):
        if isinstance(st, ast.Expr) and isinstance(st.value, ast.Constant):
            return [p]
        if isinstance(st, ast.Assign) and len(st.targets) == 1 and isinstance(st.targets[0], ast.Name):
            v = self.expr(st.value, p)
            if isinstance(v, _Raise):
                p.raised = v.what
                return [p]
            p.env[st.targets[0].id] = v
            return [p]
        if isinstance(st, ast.Expr) and isinstance(st.value, ast.Call):
            v = self.expr(st.value, p)
            if isinstance(v, _Raise):
                p.raised = v.what
            return [p]
        if isinstance(st, ast.If):
            c = self.expr(st.test, p)
            if isinstance(c, _Raise):
                p.raised = c.what
                return [p]
            if isinstance(c, bool):
                return self.block(st.body if c else st.orelse, p)
            pt, pf = p.fork(), p.fork()
            pt.conds.append(c)
            pf.conds.append(z3.Not(c))
            return self.block(st.body, pt) + self.block(st.orelse, pf)
        if isinstance(st, ast.Return):
            p.ret = ('return', st.value)
            return [p]
        raise Unsupported('statement %s' % ast.dump(st)[:80])

    def expr(self, e, p):
        if isinstance(e, ast.Constant):
            if isinstance(e.value, str):
                return e.value
            if isinstance(e.value, int):
                return e.value
        if isinstance(e, ast.UnaryOp) and isinstance(e.op, ast.USub) and isinstance(e.operand, ast.Constant):
            return -e.operand.value
        if isinstance(e, ast.Name):
            if e.id in p.env:
                return p.env[e.id]
            raise Unsupported('name %s' % e.id)
        if isinstance(e, ast.List) and not e.elts:
            return []
        if isinstance(e, ast.Attribute) and isinstance(e.value, ast.Name) and e.value.id == 'self':
            if e.attr in self.self_attrs:
                return self.self_attrs[e.attr]
            raise Unsupported('self.%s' % e.attr)
        if isinstance(e, ast.Compare) and len(e.ops) == 1:
            l, r = self.expr(e.left, p), self.expr(e.comparators[0], p)
            if isinstance(e.ops[0], ast.NotEq):
                return l != r
            if isinstance(e.ops[0], ast.Eq):
                return l == r
            raise Unsupported('compare')
        if isinstance(e, ast.BinOp) and isinstance(e.op, ast.Add):
            l, r = self.expr(e.left, p), self.expr(e.right, p)
            if isinstance(l, BStr) and isinstance(r, str):
                return concat_const(l, r)
            raise Unsupported('add')
        if isinstance(e, ast.Subscript):
            base = self.expr(e.value, p)
            if isinstance(base, list):
                idx = self.expr(e.slice, p)
                if idx == -1:
                    if not base:
                        return _Raise('IndexError')
                    return base[-1]
                raise Unsupported('list index')
            if isinstance(base, BStr) and isinstance(e.slice, ast.Slice) and e.slice.lower is None and e.slice.step is None:
                k = self.expr(e.slice.upper, p)
                if isinstance(k, int) and k < 0:
                    cut = base.n + k
                    return prefix(base, z3.If(cut < 0, 0, cut))     # x[:-k] == x[:max(0, len-k)]
                return ('prefix', base, k)
            raise Unsupported('subscript')
        if isinstance(e, ast.ListComp) and len(e.generators) == 1 and not e.generators[0].ifs:
            g = e.generators[0]
            it = self.expr(g.iter, p)
            if not isinstance(it, list) or not isinstance(g.target, ast.Name):
                raise Unsupported('listcomp')
            out = []
            for item in it:
                q = p.fork()
                q.env[g.target.id] = item
                out.append(self.expr(e.elt, q))
            return out
        if isinstance(e, ast.Call) and isinstance(e.func, ast.Attribute):
            recv = self.expr(e.func.value, p)
            args = [self.expr(a, p) for a in e.args]
            mname = e.func.attr
            for x in [recv] + args:
                if isinstance(x, _Raise):
                    return x
            if isinstance(recv, list):
                if mname == 'append':
                    recv.append(args[0])
                    return None
                if mname == 'extend':
                    recv.extend(args[0])
                    return None
            if isinstance(recv, BStr):
                if mname == 'upper':
                    return upper(recv)
                if mname == 'lower':
                    return lower(recv)
                if mname == 'find' and isinstance(args[0], str):
                    return find(recv, args[0])
                if mname == 'endswith' and isinstance(args[0], str):
                    return endswith_const(recv, args[0])
            raise Unsupported('call .%s' % mname)
        raise Unsupported('expression %s' % ast.dump(e)[:80])


class _Raise(object):
    def __init__(self, what):
        self.what = what


def realise_prefix(v, path_conds):
    """('prefix', s, k) -> BStr; k is known on the path to be != -1 (find result), i.e. >= 0"""
    if isinstance(v, tuple) and v[0] == 'prefix':
        return prefix(v[1], v[2])
    return v
