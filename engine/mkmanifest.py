"""Regenerate MANIFEST.json from engine/registry.py (run by hand after registry edits)."""
import json, os, sys
HERE = os.path.dirname(os.path.abspath(__file__))
VERIF = os.path.dirname(HERE)
sys.path.insert(0, VERIF)
from engine.registry import PROPS, NOT_APPLICABLE, MANIFEST_TEXT

checks = []
for pid in sorted(PROPS):
    e = PROPS[pid]
    t = MANIFEST_TEXT[pid]
    checks.append(dict(
        property_id=pid,
        quick_cmd='./vp-check %s quick' % pid,
        thorough_cmd='./vp-check %s thorough' % pid,
        evidence_file='evidence/%s.json' % pid,
        replay_cmd_template='.venv/bin/python {path}',
        engine=t.get('engine', 'XH'),
        level_claimed=dict(category=e.get('level', 'other'), text=t['level_text'], design_ref=t.get('design_ref', 'DESIGN.md section 5 ' + pid)),
        level_note=t['level_note'],
        technique=t['technique'],
    ))
m = dict(
    version=1,
    setup_cmd='sh ./setup.sh',
    hooks=dict(guard='PYSMI_VERIF', enable='no hooks are compiled in: every stub is installed by the harness into module namespaces at run time; checks import pysmi from $VERIF_REPO (default /repo)',
               baseline_off_cmd='cd /repo && /venv/bin/python -m pytest -ra -q -p no:cacheprovider --timeout=900 --continue-on-collection-errors',
               source_commits=[], add_only=True),
    engines=[
        dict(name='XH', path='engine/xh_worker.py', serves_properties=sorted(PROPS),
             kind_free_text='CrossHair 0.0.110 symbolic execution of the real pysmi functions, z3 decides each branch; one process per condition shard; counterexamples replayed under plain CPython'),
        dict(name='SMT', path='engine/smt.py', serves_properties=[p for p in sorted(PROPS) if MANIFEST_TEXT[p].get('smt')],
             kind_free_text='direct z3 queries (regex theory, bounded-string unrolling, Datalog fixedpoint over LALR tables) generated from the source on every run'),
    ],
    checks=checks,
    notes='See DESIGN.md. Exit codes of every check: 0 held within bounds (KNOWN-FINDING lines for recorded open defects), 1 replayed violation, 2 harness error. Inconclusive conditions are printed and recorded, never counted as held.',
    not_applicable=NOT_APPLICABLE,
)
with open(os.path.join(VERIF, 'MANIFEST.json'), 'w') as f:
    json.dump(m, f, indent=1)
print('wrote MANIFEST.json with %d checks, %d not applicable' % (len(checks), len(NOT_APPLICABLE)))
