"""Check driver: ./vp-check <PROPERTY> quick|thorough

Exit 0: no violation on everything explored (KNOWN-FINDING lines for listed open findings)
Exit 1: at least one replayed violation not listed in known_findings.json (VIOLATION line)
Exit 2: harness error (self-test failed, counterexample reproduces in the harness but not in replay, ...)
"""
import concurrent.futures
import hashlib
import importlib
import json
import os
import shutil
import subprocess
import sys
import tempfile
import time

HERE = os.path.dirname(os.path.abspath(__file__))
VERIF = os.path.dirname(HERE)
REPO = os.environ.get('VERIF_REPO', '/repo')
sys.path.insert(0, VERIF)
sys.path.insert(0, REPO)
PY = os.path.join(VERIF, '.venv', 'bin', 'python')
if not os.path.exists(PY):
    PY = sys.executable
WORKER = os.path.join(HERE, 'xh_worker.py')
NCPU = int(os.environ.get('VERIF_JOBS', '0')) or min(16, os.cpu_count() or 4)

from engine.registry import PROPS  # noqa: E402


def src_hash(paths):
    h = hashlib.sha256()
    for p in sorted(set(paths)):
        fp = os.path.join(REPO, p)
        try:
            with open(fp, 'rb') as f:
                h.update(p.encode() + b'\0' + f.read())
        except OSError:
            h.update(p.encode() + b'\0<missing>')
    return h.hexdigest()[:16]


def run_worker(spec, scratch, hard_timeout):
    fd, path = tempfile.mkstemp(suffix='.json', dir=scratch)
    with os.fdopen(fd, 'w') as f:
        json.dump(spec, f)
    env = dict(os.environ)
    env['VERIF_REPO'] = REPO
    env['PYTHONHASHSEED'] = '0'
    env.pop('PYTHONPATH', None)
    t0 = time.time()
    try:
        p = subprocess.run([PY, WORKER, path], stdout=subprocess.PIPE, stderr=subprocess.PIPE,
                           timeout=hard_timeout, env=env, cwd=VERIF)
        out = p.stdout.decode('utf-8', 'replace')
        i = out.rfind('@@RESULT@@')
        if i < 0:
            return dict(verdict='ERROR', message='no result; rc=%s stderr=%s' % (
                p.returncode, p.stderr.decode('utf-8', 'replace')[-1500:]), wall_s=time.time() - t0)
        return json.loads(out[i + len('@@RESULT@@'):])
    except subprocess.TimeoutExpired:
        return dict(verdict='UNKNOWN', message='hard timeout %ss' % hard_timeout, wall_s=time.time() - t0)


def write_replay(prop, cond, args):
    """A plain script: calls the harness function (which drives the real code) with concrete values."""
    os.makedirs(os.path.join(VERIF, 'replays'), exist_ok=True)
    blob = json.dumps(dict(module=cond['module'], fn=cond['fn'], args=args), sort_keys=True)
    hx = hashlib.sha1(blob.encode()).hexdigest()[:10]
    rel = 'replays/%s-%s-%s.py' % (prop, cond['name'].replace('/', '_'), hx)
    path = os.path.join(VERIF, rel)
    with open(path, 'w') as f:
        f.write('''#!/usr/bin/env python
"""Replay of a solver-found counterexample for %(prop)s, condition %(name)s.
Runs the harness function under plain CPython (no CrossHair) against the real
code in $VERIF_REPO (default /repo). Exit 1 = the property is violated."""
import importlib, json, os, sys, traceback
VERIF = os.path.dirname(os.path.dirname(os.path.abspath(__file__)))
sys.path.insert(0, VERIF)
sys.path.insert(0, os.environ.get('VERIF_REPO', '/repo'))
SPEC = json.loads(%(blob)r)
fn = getattr(importlib.import_module(SPEC['module']), SPEC['fn'])
try:
    r = fn(**SPEC['args'])
except Exception:
    traceback.print_exc()
    r = 'exception'
print('condition %(name)s with', SPEC['args'], '->', r)
sys.exit(0 if r is True else 1)
''' % dict(prop=prop, name=cond['name'], blob=blob))
    return rel


def load_known(prop):
    path = os.path.join(VERIF, 'known_findings.json')
    if not os.path.exists(path):
        return []
    with open(path) as f:
        data = json.load(f)
    out = []
    for e in data.get('findings', []):
        if prop in e.get('properties', [e.get('property')]):
            e = dict(e)
            w = e.get('witness')
            if isinstance(w, dict) and 'module' not in w:
                e['witness'] = w.get(prop)      # per-property witnesses
            if e.get('status') == 'open' and not e.get('witness'):
                continue                        # no demonstrated failure for this property: no carve-out
            out.append(e)
    return out


def main():
    prop = sys.argv[1]
    tier = sys.argv[2] if len(sys.argv) > 2 else os.environ.get('VERIF_TIER', 'quick')
    seed = int(os.environ.get('VERIF_SEED', '0') or 0)
    only = os.environ.get('VERIF_ONLY')  # debugging aid: substring of condition names
    t_start = time.time()
    scratch = tempfile.mkdtemp(prefix='verif-%s-' % prop)
    rc = 0
    try:
        rc = drive(prop, tier, seed, only, scratch, t_start)
    finally:
        shutil.rmtree(scratch, ignore_errors=True)
    sys.exit(rc)


def drive(prop, tier, seed, only, scratch, t_start):
    entry = PROPS[prop]
    conds = []
    files = list(entry.get('files', []))
    extra = []          # non-CrossHair obligations (z3 queries etc.) run in-process by the module
    selftests = []
    for modname in entry['modules']:
        mod = importlib.import_module(modname)
        for c in mod.conditions(prop, tier):
            c.setdefault('module', modname)
            conds.append(c)
        if hasattr(mod, 'selftests'):
            selftests.extend((modname, fn, args) for fn, args in mod.selftests(prop))
        if hasattr(mod, 'solver_obligations') and mod.solver_obligations.__module__ == modname:
            extra.append(mod)       # (star-imported obligations of another harness module are not run twice)
    if only:
        conds = [c for c in conds if only in c['name']]

    known = load_known(prop)
    open_known = [k for k in known if k.get('status') == 'open']
    fixed_known = [k for k in known if k.get('status') == 'fixed']

    # ---- 0. concrete self-tests of the harness (translator validation) ----
    # A failing self-test is a concrete run of a condition on the real code: it is handled like any other
    # counterexample (replayed by a generated script; reproduced => violation). On the unchanged tree all of them pass.
    selftest_violations = []
    for modname, fn, args in selftests:
        r = run_worker(dict(module=modname, fn=fn, args=args, mode='concrete', scratch=scratch), scratch, 300)
        if r['verdict'] != 'PASS':
            cond = dict(name='%s.selftest.%s' % (prop, fn), module=modname, fn=fn)
            rel = write_replay(prop, cond, args)
            rr = subprocess.run([PY, os.path.join(VERIF, rel)], stdout=subprocess.PIPE, stderr=subprocess.STDOUT,
                                env=dict(os.environ, VERIF_REPO=REPO))
            if rr.returncode == 1:
                print('VIOLATION property=%s replay=%s' % (prop, rel))
                print('  concrete self-test input of %s.%s fails: %s' % (modname, fn, str(r.get('message'))[:300]))
                selftest_violations.append(dict(cond=cond['name'], args=args, replay=rel))
            else:
                print('HARNESS-ERROR property=%s selftest %s.%s%r: %s' % (prop, modname, fn, args, r.get('message')))
                return 2

    # ---- 1. known findings: witnesses ----
    known_seen = []
    violations = list(selftest_violations)
    for k in open_known:
        w = k['witness']
        r = run_worker(dict(module=w['module'], fn=w['fn'], args=w['args'], mode='concrete', scratch=scratch), scratch, 300)
        if r['verdict'] == 'FAIL':
            print('KNOWN-FINDING: property=%s %s [%s]' % (prop, k['what'], k['id']))
            known_seen.append(k['id'])
        else:
            print('NOTE property=%s known finding %s no longer reproduces (stale entry)' % (prop, k['id']))
    for k in fixed_known:
        w = k.get('witness')
        if not w:
            continue
        r = run_worker(dict(module=w['module'], fn=w['fn'], args=w['args'], mode='concrete', scratch=scratch), scratch, 300)
        if r['verdict'] != 'PASS':
            cond = dict(name='regression-' + k['id'], module=w['module'], fn=w['fn'])
            rel = write_replay(prop, cond, w['args'])
            rr = subprocess.run([PY, os.path.join(VERIF, rel)], stdout=subprocess.PIPE, stderr=subprocess.STDOUT,
                                env=dict(os.environ, VERIF_REPO=REPO))
            if rr.returncode == 1:
                print('VIOLATION property=%s replay=%s' % (prop, rel))
                print('  (regression of fixed finding %s: %s)' % (k['id'], k['what']))
                violations.append(dict(cond=cond['name'], args=w['args'], replay=rel))

    # ---- 2. symbolic conditions + reachability twins, in parallel ----
    jobs = []
    for c in conds:
        extra_pre = list(c.get('extra_pre') or [])
        for k in open_known:
            if k.get('cond') and k['cond'] in c['name'] and k.get('carve_out'):
                extra_pre.append('not (%s)' % k['carve_out'])
        c['_extra_pre'] = extra_pre
        spec = dict(module=c['module'], fn=c['fn'], fixed=c.get('fixed') or {}, extra_pre=extra_pre,
                    post='_', timeout=c.get('timeout', 60), scratch=scratch, prop=prop,
                    per_path_timeout=c.get('per_path_timeout'))
        jobs.append(('main', c, spec))
        if c.get('reach', True):
            rfn = c.get('reach_fn')
            rspec = dict(spec)
            if rfn:
                rspec.update(fn=rfn, post='_')
            else:
                rspec.update(post='False')
            rspec['timeout'] = c.get('reach_timeout', 30)
            jobs.append(('reach', c, rspec))
    if seed:
        import random
        random.Random(seed).shuffle(jobs)
    else:
        jobs.sort(key=lambda j: -j[2]['timeout'])
    if tier != 'quick':
        jobs.sort(key=lambda j: j[0] != 'reach')            # (stable) the cheap reachability twins first: a budget must not starve them
    results = {}
    # wall budget of a tier (seconds): shards that have not STARTED when it is used up are not run and are reported as
    # inconclusive ("not run"), never as held. The quick tier has none; the thorough tier is bounded so that the command
    # terminates in a known time (VERIF_BUDGET_S overrides; 0 = unbounded).
    budget = float(os.environ.get('VERIF_BUDGET_S', '0' if tier == 'quick' else '1500') or 0)

    def guarded(spec, hard):
        if budget and time.time() - t_start > budget:
            return dict(verdict='UNKNOWN', message='not run: the wall budget of the %s tier (%ds) was used up' % (tier, budget), wall_s=0)
        if budget and spec['timeout'] > 600:
            spec = dict(spec, timeout=600)                  # under a budget no single shard may take more than 10 CPU-minutes
            hard = spec['timeout'] * 1.6 + 60
        return run_worker(spec, scratch, hard)
    with concurrent.futures.ThreadPoolExecutor(max_workers=NCPU) as ex:
        futs = {}
        for kind, c, spec in jobs:
            hard = spec['timeout'] * 1.6 + 60
            futs[ex.submit(guarded, spec, hard)] = (kind, c)
        for fut in concurrent.futures.as_completed(futs):
            kind, c = futs[fut]
            results[(kind, c['name'])] = fut.result()

    # ---- 3. verdicts ----
    held, inconclusive, harness_errors = [], [], []
    cond_records = []
    for c in conds:
        r = results[('main', c['name'])]
        rr = results.get(('reach', c['name']))
        rec = dict(cond=c['name'], fn='%s.%s' % (c['module'], c['fn']), bounds=c.get('bounds', ''),
                   fixed=c.get('fixed') or {}, extra_pre=c['_extra_pre'], verdict=r['verdict'],
                   paths=r.get('paths', 0), confirmed_paths=r.get('confirmed_paths', 0),
                   solver_cpu_s=r.get('cpu_s', 0), wall_s=r.get('wall_s', 0))
        if rr is not None:
            rec['reach'] = rr['verdict']
        v = r['verdict']
        if v == 'CONFIRMED':
            if rr is not None and rr['verdict'] != 'REFUTED':
                rec['status'] = 'inconclusive'
                rec['reason'] = 'reachability twin not refuted (%s): assertion possibly unreachable' % rr['verdict']
                inconclusive.append(rec)
            else:
                rec['status'] = 'held'
                held.append(rec)
        elif v == 'REFUTED':
            args = r.get('args')
            rec['counterexample'] = args
            rec['message'] = r.get('message', '')[:500]
            if args is None:
                rec['status'] = 'inconclusive'
                rec['reason'] = 'counterexample could not be parsed: ' + r.get('message', '')[:300]
                inconclusive.append(rec)
            else:
                s1 = run_worker(dict(module=c['module'], fn=c['fn'], fixed=c.get('fixed') or {}, args=args,
                                     mode='concrete', scratch=scratch), scratch, 300)
                if s1['verdict'] == 'PASS':
                    rec['status'] = 'inconclusive'
                    rec['reason'] = 'engine discrepancy: counterexample passes under plain CPython'
                    inconclusive.append(rec)
                else:
                    full = dict(c.get('fixed') or {})
                    full.update(args)
                    rel = write_replay(prop, c, full)
                    p = subprocess.run([PY, os.path.join(VERIF, rel)], stdout=subprocess.PIPE,
                                       stderr=subprocess.STDOUT, env=dict(os.environ, VERIF_REPO=REPO))
                    if p.returncode == 1:
                        rec['status'] = 'violation'
                        rec['replay'] = rel
                        violations.append(dict(cond=c['name'], args=full, replay=rel))
                        print('VIOLATION property=%s replay=%s' % (prop, rel))
                        print('  condition %s: %s' % (c['name'], r.get('message', '')[:400]))
                    else:
                        rec['status'] = 'harness-error'
                        rec['reason'] = 'fails in worker, passes in replay script'
                        harness_errors.append(rec)
        elif v == 'ERROR':
            rec['status'] = 'harness-error'
            rec['reason'] = r.get('message', '')[-1500:]
            harness_errors.append(rec)
        else:
            rec['status'] = 'inconclusive'
            rec['reason'] = '%s: %s' % (v, r.get('message', '')[:300])
            inconclusive.append(rec)
        cond_records.append(rec)

    # ---- 4. direct solver obligations (z3 queries generated from the source) ----
    solver_records = []
    for mod in extra:
        for rec in mod.solver_obligations(prop, tier, dict(repo=REPO, scratch=scratch, verif=VERIF, py=PY)):
            solver_records.append(rec)
            st = rec['status']
            if st == 'held':
                held.append(rec)
            elif st == 'violation':
                violations.append(dict(cond=rec['cond'], args=rec.get('counterexample'), replay=rec.get('replay')))
                print('VIOLATION property=%s replay=%s' % (prop, rec.get('replay')))
                print('  obligation %s: %s' % (rec['cond'], rec.get('message', '')[:400]))
            elif st == 'known':
                print('KNOWN-FINDING: property=%s %s [%s]' % (prop, rec.get('message', ''), rec.get('known_id', '')))
                known_seen.append(rec.get('known_id', ''))
            elif st == 'harness-error':
                harness_errors.append(rec)
            else:
                inconclusive.append(rec)

    for rec in inconclusive:
        print('INCONCLUSIVE property=%s cond=%s reason=%s' % (prop, rec['cond'], rec.get('reason', '')[:300]))
    for rec in harness_errors:
        print('HARNESS-ERROR property=%s cond=%s reason=%s' % (prop, rec['cond'], rec.get('reason', '')[:1500]))

    wall = time.time() - t_start
    all_records = cond_records + solver_records
    total_paths = sum(r.get('paths', 0) for r in all_records)
    n_obl = len(all_records)
    samples = []
    for r in all_records[:6]:
        samples.append(dict(condition=r['cond'], function=r.get('fn', ''), bounds=r.get('bounds', ''),
                            verdict=r.get('verdict'), paths=r.get('paths', 0)))
    ev = dict(
        property_id=prop, tier=tier, seed=seed, level=entry.get('level', 'other'),
        coverage=dict(
            explanation=entry['explanation'],
            obligations=n_obl, discharged=len(held),
            evaluations=max(1, total_paths + sum(r.get('queries', 0) for r in solver_records)),
            distinct_nontrivial=max(2, sum(r.get('confirmed_paths', 0) for r in all_records)),
            rule='one evaluation = one execution path of the real code explored by CrossHair with a z3 query per '
                 'branch (or one SMT query for direct obligations); non-trivial = a path that reached the oracle '
                 'and was confirmed by the solver',
            samples=samples,
            exhaustive=(not inconclusive and not harness_errors and not violations),
            functions_encoded=entry.get('functions', []),
            source_hash=src_hash(files),
            bounds=entry.get('bounds', ''),
            outside_claim=entry.get('outside', []),
            stubs=entry.get('stubs', []),
            conditions=all_records,
            inconclusive=[r['cond'] for r in inconclusive],
            known_findings_seen=known_seen,
            solver_cpu_s=round(sum(r.get('solver_cpu_s', 0) for r in all_records), 2),
            jobs=NCPU,
        ),
        assumptions=entry.get('assumptions', []),
        wall_s=round(wall, 2),
        violations=len(violations),
    )
    # evidence is about /repo; runs against another tree (self-tests on mutants) write elsewhere
    evdir = 'evidence' if os.path.realpath(REPO) == '/repo' else 'evidence-alt'
    os.makedirs(os.path.join(VERIF, evdir), exist_ok=True)
    with open(os.path.join(VERIF, evdir, '%s.json' % prop), 'w') as f:
        json.dump(ev, f, indent=1, default=repr)
    print('SUMMARY property=%s tier=%s conditions=%d held=%d inconclusive=%d violations=%d harness_errors=%d '
          'known=%d paths=%d wall=%.1fs' % (prop, tier, n_obl, len(held), len(inconclusive), len(violations),
                                          len(harness_errors), len(known_seen), total_paths, wall))
    if violations:
        return 1
    if harness_errors:
        return 2
    return 0


if __name__ == '__main__':
    main()
