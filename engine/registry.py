"""Property -> harness modules and static description used in the evidence files."""

COMPILE_FILES = ['pysmi/compiler.py', 'pysmi/error.py', 'pysmi/mibinfo.py']
COMPILE_STUBS = ['scripted Source/Parser/SymbolTable/CodeGen/Searcher/Borrower/Writer doubles whose every call outcome '
                 'is a symbolic int/bool; MibCompiler._get_system_info returns constants']
XH = ('bounded symbolic execution of the real functions with CrossHair (z3 decides every branch); a condition counts '
      'only when CrossHair reports "Confirmed over all paths" within the stated bounds and its reachability twin is '
      'refuted; counterexamples are replayed concretely before being reported')

PROPS = {}


def _compile_prop(pid, what, outside):
    PROPS[pid] = dict(
        modules=['harness.hcompile'], files=COMPILE_FILES, level='other',
        explanation=XH + '. ' + what,
        functions=['pysmi.compiler.MibCompiler.compile', 'pysmi.compiler.MibStatus.setOptions',
                   'pysmi.error.PySmiError.__init__'],
        bounds='quick: 2 modules, <=2 sources, <=2 searchers, <=2 borrowers; thorough: 3 modules; '
               'outcomes and options symbolic as listed per condition',
        stubs=COMPILE_STUBS, outside=outside,
        assumptions=['components fail only with the package error type (justified for MIB defects by C11 and the '
                     'second part of C07)', 'requested names are distinct; a file named X declares module X'])


_compile_prop('C07', 'C07: result accounts for every module, statuses match writer effects, errors contained.',
              ['more than 3 modules / 2 sources / 2 searchers / 2 borrowers', 'non-package exceptions from components'])
_compile_prop('C08', 'C08: import closure, fetch-once, source order, termination.',
              ['more than 3 modules / 2 sources', 'files that declare a module under another name'])
_compile_prop('C09', 'C09: all-or-nothing write gate and ignoreErrors.', ['more than 3 modules'])
_compile_prop('C10', 'C10 (orchestration half): searcher answers decide untouched/regenerate; rebuild/noDeps.',
              ['PyPackageSearcher', 'real file systems'])
_compile_prop('C19', 'C19 (orchestration half): borrowing only for failures, in order, verbatim.',
              ['real readers behind borrowers (C14)'])

# ---- MANIFEST texts ------------------------------------------------------------

MANIFEST_TEXT = {}
_T = 'CrossHair symbolic execution of MibCompiler.compile (z3), bounded, with replay'
for _p, _what in (('C07', 'result accounting / status-effect agreement / error containment'),
                  ('C08', 'import closure, source order, fetch-once, termination'),
                  ('C09', 'all-or-nothing write gate'),
                  ('C10', 'untouched/rebuild/noDeps orchestration and the file searchers'),
                  ('C19', 'borrowing rules')):
    MANIFEST_TEXT[_p] = dict(
        technique=_T,
        level_text='Solver-exhaustive within bounds: the real compile() is executed symbolically over every import graph '
                   'and every assignment of component outcomes/options listed per condition (2 modules quick, 3 thorough); '
                   'each condition must reach "Confirmed over all paths"; ' + _what + '. Bounded, not a proof.',
        level_note='Trusted: CrossHair/z3; scripted component doubles stand for parser/codegen/reader/writer (they fail only '
                   'with the package error). Outside: >3 modules, >2 sources/searchers/borrowers.')

PROPERTY_IDS = ['C%02d' % i for i in range(1, 21)]
NOT_APPLICABLE = []


def _finalise():
    del NOT_APPLICABLE[:]
    for p in PROPERTY_IDS:
        if p not in PROPS:
            NOT_APPLICABLE.append(dict(property_id=p, reason=PENDING.get(p, 'check not built yet (work in progress); see DESIGN.md section 5 for the planned encoding')))


PENDING = {}
_finalise()

PROPS['C13'] = dict(
    modules=['harness.c13_writers'], level='other',
    files=['pysmi/writer/localfile.py', 'pysmi/writer/pyfile.py', 'pysmi/writer/callback.py', 'pysmi/compat.py'],
    explanation=XH + '. C13: FileWriter/PyFileWriter/CallbackWriter.putData run on an in-memory file-system model; the '
                'index of the failing system call, the fault kind (error / short write with a symbolic byte count), '
                'presence of directory and destination, dry-run, byte-compile outcome and the module text are symbolic. Concurrent writers: '
                'two real putData() calls run in two threads over one shared model; every system call is a yield point and the thread that '
                'proceeds is chosen by symbolic schedule bits in the traced main thread, so the solver explores every interleaving.',
    functions=['pysmi.writer.localfile.FileWriter.putData', 'pysmi.writer.pyfile.PyFileWriter.putData',
               'pysmi.writer.callback.CallbackWriter.putData', 'pysmi.compat.encode', 'pysmi.compat.decode'],
    bounds='single fault at call index k<=8; text length <=3 (quick) / <=5 (thorough) over all characters except lone surrogates; '
           'concurrency: two writers of the same module, every interleaving of their system calls (16 symbolic schedule bits), '
           'optionally one fault at the k-th call (k<=14) of the combined sequence',
    stubs=['ModelFS/FakeOs/FakeTempfile/FakePyCompile in harness/envstubs.py replace os, tempfile, py_compile in the writer modules '
           '(descriptors refer to inodes: a write after a concurrent rename lands in the renamed file)',
           'cooperative scheduler (harness/c13_writers.py Sched): worker threads block at every model system call'],
    outside=['more than two concurrent writers; pre-emption inside one system call (system calls are atomic in the model)', 'double faults (e.g. unlink failing during clean-up)',
             'real kernel semantics of rename', 'file-descriptor leaks'],
    assumptions=['os.write accepts at least the bytes it reports', 'a fault in os.close still releases the descriptor'])
MANIFEST_TEXT['C13'] = dict(
    technique='CrossHair symbolic execution of the writers over an in-memory FS with symbolic fault schedule',
    level_text='Solver-exhaustive within bounds: every single-fault placement (error or short write of any size) x fresh/existing '
               'destination x dry-run x byte-compile outcome x every text up to the length bound; fault_enumeration done by the solver '
               'rather than by enumeration; every interleaving of two concurrent writers of one module at system-call granularity.',
    level_note='Trusted: CrossHair/z3 and its str.encode model; the in-memory FS model. Outside: >2 writers, double faults, real rename.')
_finalise()

PROPS['C10']['modules'] = ['harness.hcompile', 'harness.c10_searchers']
PROPS['C10']['files'] = COMPILE_FILES + ['pysmi/searcher/anyfile.py', 'pysmi/searcher/pyfile.py', 'pysmi/searcher/stub.py']
PROPS['C10']['functions'] += ['pysmi.searcher.anyfile.AnyFileSearcher.fileExists', 'pysmi.searcher.pyfile.PyFileSearcher.fileExists',
                              'pysmi.searcher.stub.StubSearcher.fileExists']
PROPS['C10']['stubs'] = COMPILE_STUBS + ['ModelFS os/os.path; open and struct.unpack replaced in pysmi.searcher.pyfile (the .pyc header is modelled as magic + one time field)']
PROPS['C10']['outside'] = ['PyPackageSearcher (needs __import__/zipimport loaders)', 'the real .pyc header layout', 'real file systems']
PROPS['C19']['modules'] = ['harness.hcompile', 'harness.c19_borrowers']
PROPS['C19']['files'] = COMPILE_FILES + ['pysmi/borrower/base.py', 'pysmi/borrower/pyfile.py', 'pysmi/borrower/anyfile.py']
PROPS['C19']['functions'] += ['pysmi.borrower.base.AbstractBorrower.getData', 'pysmi.borrower.base.AbstractBorrower.setOptions']

PROPS['C18'] = dict(
    modules=['harness.c18_index'], level='other',
    files=['pysmi/codegen/jsondoc.py', 'pysmi/compiler.py'],
    explanation=XH + '. C18: genIndex/buildIndex with sibling arcs as symbolic decimal strings, symbolic tree-shape flags and build histories.',
    functions=['pysmi.codegen.jsondoc.JsonCodeGen.genIndex', 'pysmi.compiler.MibCompiler.buildIndex'],
    bounds='2 modules, <=3 OIDs each, sibling arcs of <=2 decimal digits, histories of <=2 incremental builds + one re-index',
    stubs=['json in pysmi.codegen.jsondoc replaced by an identity codec'],
    outside=['arcs with more than two digits', 'more than two modules / three builds', 'JSON text formatting'],
    assumptions=['MibInfo.oids are dotted decimal strings as produced by IntermediateCodeGen (C01)'])
MANIFEST_TEXT['C18'] = dict(
    technique='CrossHair symbolic execution of JsonCodeGen.genIndex / buildIndex with symbolic digit-string arcs',
    level_text='Solver-exhaustive within bounds: all pairs of sibling arcs up to two decimal digits (as symbolic strings), all '
               'nesting/overlap/summary flags, all orders of incremental builds of two modules, re-index fixpoint.',
    level_note='Trusted: CrossHair/z3 string model; json replaced by identity. Outside: longer arcs, more modules.')
_finalise()

TOK_STUBS = ['FakeLexer: token source with concrete token types and symbolic values (the lexer is covered by the LEX/RX conditions of C02/C05/C11)',
             'jinja2 in pysmi.codegen.jsondoc / pysmi.codegen.pysnmp replaced by a capture object: render(mib=ctx) returns ctx']
TOK_FILES = ['pysmi/parser/smi.py', 'pysmi/parser/dialect.py', 'pysmi/lexer/smi.py', 'pysmi/codegen/symtable.py',
             'pysmi/codegen/intermediate.py', 'pysmi/codegen/base.py', 'pysmi/codegen/jsondoc.py', 'pysmi/codegen/pysnmp.py']
TOK_FUNCS = ['ply.yacc.LRParser.parse driven by the LALR tables of pysmi.parser.smi.SmiV2Parser (all p_* actions)',
             'pysmi.codegen.symtable.SymtableCodeGen.genCode (+ handlers)', 'pysmi.codegen.intermediate.IntermediateCodeGen.genCode (+ handlers)',
             'pysmi.codegen.jsondoc.JsonCodeGen.genCode', 'pysmi.codegen.pysnmp.PySnmpCodeGen.genCode (up to render)']

PROPS['C01'] = dict(
    modules=['harness.c01_oid'], level='other', files=TOK_FILES,
    explanation=XH + '. C01: token sentences with symbolic tree shape / declaration order / spelling / kind / module split and '
                'unbounded symbolic arcs go through the real LR parser, symbol table and code generators; resolved OIDs are compared '
                'with the harness\' own tree.',
    functions=TOK_FUNCS, stubs=TOK_STUBS,
    bounds='<=4 nodes, <=3 modules; arcs unbounded (K1, compared as int tuples) or from a boundary set (K2, rendered forms)',
    outside=['the rendered JSON / Python text (template layer)', 'trees with more than 4 named nodes', 'K2 arcs outside the boundary set',
             'identifiers that are Python keywords (known finding, see C04/C03)'],
    assumptions=['CPython: int(str(a)) == a and "." not in str(a) for a >= 0'])
MANIFEST_TEXT['C01'] = dict(
    technique='CrossHair symbolic execution of real parser actions + symbol table + code generators on model-generated token sentences',
    level_text='Solver-exhaustive within bounds: all tree shapes/orders/spellings/kinds/module splits of the stated sizes with unbounded '
               'symbolic arcs; OIDs compared against an independent ground-truth tree.',
    level_note='Trusted: CrossHair/z3, PLY LALR construction; the lexer is not part of these conditions; template rendering captured.')
_finalise()

PROPS['C05'] = dict(
    modules=['harness.c05_types'], level='other', files=TOK_FILES,
    explanation=XH + '. C05: SYNTAX clauses with symbolic numbers of range/SIZE alternatives, unbounded symbolic bounds, enumeration/BITS '
                'items, chains of derived types in symbolic declaration order over two modules and every DEFVAL notation go through the '
                'real parser, symbol table and JSON code generator; the emitted constraints/defaults are compared with what was written.',
    functions=TOK_FUNCS + ['pysmi.lexer.smi.SmiV2Lexer.t_NUMBER', 'pysmi.codegen.intermediate.IntermediateCodeGen.getBaseType/genDefVal',
                           'pysmi.codegen.base.AbstractCodeGen.str2int/isHex/isBinary'],
    stubs=TOK_STUBS, bounds='<=3 alternatives / items, chains of <=3 derived types over <=2 modules; numeric values unbounded',
    outside=['constraints()/default() macros of the pysnmp template and pyasn1 objects', 'chains longer than 3', 'hex/bin literals outside the literal pool'],
    assumptions=['enumeration labels are distinct (SMI rule)'])
MANIFEST_TEXT['C05'] = dict(
    technique='CrossHair symbolic execution of parser actions + symtable + JSON codegen on SYNTAX/DEFVAL token sentences',
    level_text='Solver-exhaustive within bounds: every arrangement of <=3 range/size alternatives with unbounded symbolic bounds, <=3 enum/BITS items, '
               'every DEFVAL notation through type chains of length 0..3 in every declaration order of the bounded module.',
    level_note='Trusted: CrossHair/z3, PLY. JSON side only; the pysnmp template macros are outside.')
_finalise()

PROPS['C06'] = dict(
    modules=['harness.c06_refs'], level='other', files=TOK_FILES,
    explanation=XH + '. C06: tables (columns, INDEX lists with IMPLIED / imported / hyphenated entries, AUGMENTS, SEQUENCE type present or '
                'not, declaration order), OBJECTS/NOTIFICATIONS/VARIABLES lists and compliance statements with symbolic shape go through the '
                'real parser, symbol table and JSON code generator.',
    functions=TOK_FUNCS, stubs=TOK_STUBS,
    bounds='<=3 columns, <=3 index entries, lists of <=3, <=2 MODULE parts, <=3 GROUP/OBJECT clauses, 2 modules',
    outside=['setIndexNames/registerAugmentions/setObjects calls in the pysnmp text (template)', 'longer lists'],
    assumptions=[])
MANIFEST_TEXT['C06'] = dict(
    technique='CrossHair symbolic execution of parser actions + symtable + JSON codegen on table/list/compliance token sentences',
    level_text='Solver-exhaustive within bounds over table shapes, index arrangements, list arrangements and clause interleavings.',
    level_note='Trusted: CrossHair/z3, PLY. JSON side only.')
_finalise()

PROPS['C03'] = dict(
    modules=['harness.c03_json'], level='other', files=TOK_FILES + ['pysmi/codegen/templates/jsondoc/base.j2'],
    explanation=XH + '. C03: modules with 1-3 declarations of symbolic kind and symbolic names go through the real parser, symbol table '
                'and JSON code generator; the context handed to the (single tojson) template must have exactly the declared keys with the declared data.',
    functions=TOK_FUNCS, stubs=TOK_STUBS,
    bounds='<=3 declarations over 13 kinds, names from a 7+3 pool, one symbolic string of len<=3..5 per condition',
    outside=['jinja2 and json themselves', 'names that differ only in -/_'],
    assumptions=['declared names are distinct'])
MANIFEST_TEXT['C03'] = dict(
    technique='CrossHair symbolic execution of parser + symtable + JsonCodeGen (render captured) on declaration sentences; static template check',
    level_text='Solver-exhaustive within bounds: every pair/triple of declaration kinds, every pair of names from the pool, every status/access word '
               'of <=3 characters, every units text of <=3 characters.',
    level_note='Trusted: CrossHair/z3, PLY, jinja2 tojson. Template checked statically to be a single mib|tojson output.')
_finalise()

PROPS['C15'] = dict(
    modules=['harness.c15_texts'], level='other', files=TOK_FILES + ['pysmi/codegen/templates/pysnmp/mib-definitions.j2'],
    explanation=XH + '. C15: each text-bearing clause with one symbolic quoted string, symbolic genTexts and text filter, through the real '
                'parser and JSON code generator; pysnmp side: z3 regex query over the real QUOTED_STRING language vs the safe language of each '
                'template paste site, counterexamples replayed by executing the generated module.',
    functions=TOK_FUNCS + ['default text filter re.sub(r"\\s+", " ", text) (CrossHair regex model)'], stubs=TOK_STUBS,
    bounds='one text of <=3 (quick) / <=4 (thorough) characters over the full character domain except the double quote',
    outside=['wordwrap filter and the rest of the pysnmp template beyond paste-site classification', 'pysnmp setters', 'longer texts'],
    assumptions=[])
MANIFEST_TEXT['C15'] = dict(
    technique='CrossHair symbolic execution (one symbolic text per clause) + z3 regex-theory paste-site query with executed replays', smt=True,
    level_text='JSON side solver-exhaustive within bounds for every text-bearing clause x genTexts x filter; pysnmp side partial: language-level '
               'paste-site safety decided by z3, witnesses executed.',
    level_note='Trusted: CrossHair regex model for \\s+, z3 regex theory, Jinja2. Texts longer than the bound are outside the JSON-side claim.')
_finalise()

PROPS['C16'] = dict(
    modules=['harness.c16_smiv1'], level='other', files=TOK_FILES,
    explanation=XH + '. C16: a model-generated SMIv1 module and its SMIv2 transliteration go through the real smiV1 / smiV2 parsers, '
                'symbol table and both code generators; the contexts must agree; every entry of the SMIv1->SMIv2 import map is exercised by symbolic index.',
    functions=TOK_FUNCS + ['genImports of SymtableCodeGen / IntermediateCodeGen / PySnmpCodeGen', 'lexer reserved tables'], stubs=TOK_STUBS,
    bounds='one module: enterprise root, 2 scalars (9 type spellings x 4 access words), TRAP-TYPE with 0..2 variables; arcs from boundary sets',
    outside=['SMIv1 INDEX { INTEGER } style index types (fake columns: see DESIGN known findings)', 'pysnmp text', 'STATUS value mapping'],
    assumptions=['the transliteration keeps STATUS words'])
MANIFEST_TEXT['C16'] = dict(
    technique='CrossHair symbolic execution of smiV1 vs smiV2 parser + generators on a model module and its transliteration (differential)',
    level_text='Solver-exhaustive within bounds: all combinations of type spelling, access, variables, name form, declaration order for the modelled '
               'module shape; all entries of convertImportv2.',
    level_note='Trusted: CrossHair/z3, PLY. The transliteration function is part of the harness.')
_finalise()

PROPS['C02'] = dict(
    modules=['harness.c02_tree', 'harness.c02_lex'], level='other', files=['pysmi/parser/smi.py', 'pysmi/parser/dialect.py', 'pysmi/lexer/smi.py'],
    explanation=XH + '. C02: sentence families for all declaration kinds with symbolic optional parts, list lengths, unbounded numbers and one '
                'symbolic string go through the real LR parser; a layout-independent leaf oracle checks that every written value is in the tree. '
                'Layout half: one-step invariants of the real lexer on symbolic text through a regex shim + z3 regex lemmas.',
    functions=['ply.yacc.LRParser.parse + all p_* actions of pysmi.parser.smi.SmiV2Parser', 'ply.lex.Lexer.token + all t_* actions of pysmi.lexer.smi.SmiV2Lexer'],
    stubs=['FakeLexer (tree half)', 'ShimRe: pure-Python matcher interpreting the real rule patterns (layout half)'],
    bounds='lists <=3, <=2 modules per file, <=3 declarations, numbers unbounded, one symbolic string len<=3/4; lexer steps on text len<=3/5',
    outside=['lists longer than 3', 'PLY and re themselves', 'arguments of SUBJECT-CATEGORIES, compliance OBJECT refinements, AGENT-CAPABILITIES '
             'SUPPORTS/INCLUDES/VARIATION (known finding: parsed and dropped)'],
    assumptions=[])
MANIFEST_TEXT['C02'] = dict(
    technique='CrossHair symbolic execution of the real LR parser on model sentences (leaf oracle) and of the real lexer loop on symbolic text via a regex shim; z3 regex lemmas',
    smt=True,
    level_text='Tree half solver-exhaustive within bounds for every declaration kind; layout half: single lexer step from any state for every text up to the bound.',
    level_note='Trusted: CrossHair/z3, PLY driver, re (shim is differential-tested against re on the repo\'s MIB texts every run).')
_finalise()

PROPS['C11'] = dict(
    modules=['harness.c11_reject', 'harness.c02_lex'], level='other',
    files=['pysmi/parser/smi.py', 'pysmi/lexer/smi.py', 'pysmi/error.py'],
    explanation=XH + '. C11: the real p_error, the real LR driver on mutated sentences (symbolic cut / deletion / duplication / replacement / '
                'insertion position and symbolic replacement token type), the parse() wrapper with a scripted yacc object, and single steps of the '
                'real lexer on symbolic text from every lexer state.',
    functions=['pysmi.parser.smi.SmiV2Parser.p_error', 'pysmi.parser.smi.SmiV2Parser.parse', 'ply.yacc.LRParser.parse + p_* actions',
               'ply.lex.Lexer.token + t_* actions incl. t_error, t_NUMBER, t_UPPERCASE_IDENTIFIER (forbidden words)'],
    stubs=['FakeLexer (token level)', 'ShimRe / ShimReModule regex shim (character level)', 'scripted yacc object (parse wrapper)'],
    bounds='one mutation per sentence of 28..53 tokens over 6 families; lexer steps on text of <=3..5 characters',
    outside=['PLY driver loop itself (trusted)', 'texts longer than the bound for the character level', 'multiple simultaneous mutations'],
    assumptions=[])
MANIFEST_TEXT['C11'] = dict(
    technique='CrossHair symbolic execution of p_error, of the LR driver on single-mutation sentences and of single lexer steps on symbolic text (regex shim)',
    level_text='Solver-exhaustive within bounds: every mutation position x mutation kind x replacement token type for six sentence families; every '
               'input of up to 3-5 characters from every lexer state.',
    level_note='Trusted: CrossHair/z3, PLY, the shim (validated against re on the repo MIB texts each run).')
_finalise()

PROPS['C12'] = dict(
    modules=['harness.c12_state', 'harness.c11_reject'], level='other',
    files=TOK_FILES + ['pysmi/compiler.py'],
    explanation=XH + '. C12: one inductive step from a SYMBOLIC scratch state of the generator objects (covers histories of any length), repeated '
                'processing of the same tree, all iteration orders of the sets used while generating (hash seeds), and the lexer condition after '
                'successful and failed parses.',
    functions=['pysmi.codegen.symtable.SymtableCodeGen.genCode', 'pysmi.codegen.jsondoc.JsonCodeGen.genCode', 'pysmi.codegen.pysnmp.PySnmpCodeGen.genCode',
               'pysmi.parser.smi.SmiV2Parser.parse / reset'],
    stubs=TOK_STUBS + ['NondetSet: `set` in pysmi.codegen.symtable / intermediate replaced by a subclass with harness-chosen iteration order',
                       'scripted yacc object for the parse() wrapper'],
    bounds='modules with <=2 revisions, <=3 imported symbols; scratch state symbolic as listed; fakeidx unbounded',
    outside=['CPython hashing itself', 'MibCompiler object state (it keeps none between compile() calls besides its components)', 'scripts/mibcopy.py'],
    assumptions=['reachable scratch states are those __init__ and an earlier genCode() can leave behind'])
MANIFEST_TEXT['C12'] = dict(
    technique='CrossHair symbolic execution of one genCode() step from a symbolic object state vs a fresh object; set-order nondeterminism stub',
    level_text='Inductive: one step from an arbitrary (symbolic) reachable scratch state equals a fresh object, so sequences of any length are covered '
               'for the modelled module shapes; all set iteration orders (rotation/reversal family) for hash-seed independence.',
    level_note='Trusted: CrossHair/z3. The invariant describing reachable states is part of the harness (too weak -> false alarms, never missed leaks within it).')
_finalise()

PROPS['C17'] = dict(
    modules=['harness.c17_relax'], level='other',
    files=['pysmi/parser/smi.py', 'pysmi/lexer/smi.py', 'pysmi/parser/dialect.py'],
    explanation=XH + '. C17: (1) z3 Fixedpoint/Datalog simulation between the real LALR tables of dialect pairs - acceptance and reduction sequence '
                'preserved for token sequences of ANY length; (2) differential parsing of sentence families under two real parsers; (3) each documented '
                'breakage at a symbolic position vs its corrected sentence; (4) lexer tables, unknown options.',
    functions=['LALR action/goto/production tables built by ply.yacc from the p_* docstrings', 'ply.yacc.LRParser.parse + p_* actions incl. every relaxed override',
               'pysmi.parser.smi.parserFactory', 'pysmi.lexer.smi.lexerFactory'],
    stubs=['FakeLexer'], bounds='LR: unbounded length, pairs listed per obligation; differential: family sentences with lists <=3',
    outside=['random option subsets beyond the enumerated pairs', 'sentence shapes beyond the families for the differential part',
             'texts using a word the larger dialect reserves (lexer-level difference, excluded by the property)'],
    assumptions=['PLY\'s LR driver is the standard one'])
MANIFEST_TEXT['C17'] = dict(
    technique='z3 Fixedpoint (Datalog) simulation over the real LALR tables + CrossHair differential parsing under two dialect parsers', smt=True,
    level_text='Table simulation decides inclusion with identical reductions for all input lengths on the additive pairs; restructuring options and '
               'breakages by solver-exhaustive bounded differential.',
    level_note='Trusted: z3 datalog engine, PLY table construction and driver, CrossHair.')
_finalise()

PROPS['C14'] = dict(
    modules=['harness.c14_readers'], level='other',
    files=['pysmi/reader/base.py', 'pysmi/reader/localfile.py', 'pysmi/reader/zipreader.py', 'pysmi/reader/url.py', 'pysmi/compat.py'],
    explanation=XH + '. C14: getMibVariants is interpreted from its AST into z3 terms over a bounded symbolic name (length/array encoding) and '
                'every produced name must be a documented variant; FileReader / ZipReader / URL dispatch run symbolically over in-memory models of '
                'directory trees and nested archives.',
    functions=['pysmi.reader.base.AbstractReader.getMibVariants (AST -> SMT)', 'pysmi.reader.localfile.FileReader.getData/getSubdirs/loadIndex/getMibVariants',
               'pysmi.reader.zipreader.ZipReader.__init__/_readZipDirectory/_readZipFile/getData', 'pysmi.reader.url.getReadersFromUrls'],
    stubs=['os / open replaced in pysmi.reader.localfile by an in-memory tree', 'zipfile / open replaced in pysmi.reader.zipreader by an archive model '
           '(nested tuples)', 'reader classes in pysmi.reader.url replaced by recording doubles'],
    bounds='names <= 8 (quick) / 16 (thorough) characters for the SMT part; trees of depth <= 2, archives nested <= 3',
    outside=['real ZIP decoding, real directories', 'HTTP/FTP readers', 'default port chosen for https (not part of the statement)',
             'file:// URLs that name a .zip (not pinned down by the documentation)'],
    assumptions=['module names consist of letters, digits and hyphens'])
MANIFEST_TEXT['C14'] = dict(
    technique='AST->SMT bounded-string encoding of getMibVariants (z3) + CrossHair symbolic execution of the readers over in-memory FS/ZIP models', smt=True,
    level_text='getMibVariants: every path x every name up to the bound decided by z3; readers: solver-exhaustive over the modelled tree/archive shapes.',
    level_note='Trusted: z3, CrossHair; the FS/ZIP models.')
_finalise()

PROPS['C20'] = dict(
    modules=['harness.c20_scripts'], level='other', files=['scripts/mibdump.py', 'scripts/mibcopy.py'],
    explanation=XH + '. C20 (kernel level): statement fragments cut out of the scripts\' ASTs (report/exit-code tail, option loop, getopt block of '
                'mibdump; copy loop of mibcopy) executed symbolically in a namespace of stubs.',
    functions=['scripts/mibdump.py: else-branch of the try around compile() (report + exit code), `for opt in opts` loop, getopt try-block, `if not inputMibs`',
               'scripts/mibcopy.py: `for srcDirectory in inputMibs` loop + shortenPath'],
    stubs=['sys (recording stderr, exit raises), os.walk/os.path, getMibRevision, shutil.copy, datetime.fromtimestamp (revisions are unbounded symbolic ints)'],
    bounds='<=3 modules / visits, 2 module names, one or two options',
    outside=['process start and real getopt beyond the listed command lines', 'real file systems', 'component wiring per destination format',
             '"files on disk are exactly the modules reported" = composition of C07 (status <=> successful putData) and C13 (successful putData <=> complete file), stated not re-proved',
             'mibcopy when shutil.copy fails'],
    assumptions=['revisions are totally ordered'])
MANIFEST_TEXT['C20'] = dict(
    technique='CrossHair symbolic execution of statement fragments extracted from the scripts\' ASTs with stubbed environment',
    level_text='Partial, kernel level: exit code and report lines for all status assignments of <=3 modules; option handling; mibcopy keeps the latest '
               'revision for every visiting order of <=3 files with unbounded revisions.',
    level_note='Trusted: CrossHair/z3; fragment location is structural (a missing fragment is a harness error). Whole-process behaviour is outside.')
_finalise()

PROPS['C04'] = dict(
    modules=['harness.c04_pysnmp'], level='other',
    files=TOK_FILES + ['pysmi/codegen/templates/pysnmp/mib-definitions.j2', 'pysmi/codegen/templates/pysnmp/base.j2', 'pysmi/codegen/jfilters.py'],
    explanation=XH + '. C04 is claimed PARTIALLY: (a) the context handed to the pysnmp template agrees with the JSON context, (b) every importable '
                'symbol kind is in a class the template exports (read from the template\'s Jinja AST), (c) z3 regex-theory query: language of the real '
                'identifier rules vs Python identifiers, witnesses replayed by generating and compiling the module.',
    functions=TOK_FUNCS + ['t_LOWERCASE_IDENTIFIER / t_UPPERCASE_IDENTIFIER patterns (regex -> z3)', 'exports block of mib-definitions.j2 (static)'],
    stubs=TOK_STUBS, bounds='2 declarations over 11 kinds; identifier witnesses of length <= 3 (unsat answers hold for every length)',
    outside=['syntactic validity of the whole generated module, its behaviour under MibBuilder, class definition order, everything else the template '
             'decides: Jinja2 + CPython compile() + pysnmp cannot be executed symbolically here',
             'observed while replaying: a module that uses INTEGER without importing anything from SNMPv2-SMI generates code that lacks the Integer32 import'],
    assumptions=[])
MANIFEST_TEXT['C04'] = dict(
    technique='CrossHair symbolic execution up to the template call (context agreement, export closure) + z3 regex-theory identifier query with compiled replays', smt=True,
    level_text='PARTIAL: context agreement, import/export closure and identifier paste-site safety only; validity/loadability of the generated text is outside reach of the technique.',
    level_note='Trusted: CrossHair/z3, Jinja2 AST of the template. The template layer, CPython and pysnmp are outside.')
_finalise()
PROPS['C07']['modules'] = ['harness.hcompile', 'harness.c07_semantic']
PROPS['C07']['files'] = COMPILE_FILES + ['pysmi/codegen/symtable.py', 'pysmi/codegen/intermediate.py', 'pysmi/parser/smi.py']
PROPS['C07']['functions'] += ['SymtableCodeGen.genCode / JsonCodeGen.genCode / PySnmpCodeGen.genCode on modules with semantic defects (error type)']

# ---- engine EXEC: template / CPython / pysnmp layer executed concretely per solver-explored path -------------------------
EXEC_NOTE = ('EXEC conditions (names *.exec.*): only the SHAPE of the MIB is symbolic; on every path CrossHair explores the real '
             'Jinja2 template, compile() and pysnmp run concretely and the loaded objects are compared with the JSON document')
for _p, _m in (('C04', 'harness.x04'), ('C05', 'harness.x05'), ('C06', 'harness.x06'), ('C15', 'harness.x15'), ('C16', 'harness.x16')):
    PROPS[_p]['modules'] = PROPS[_p]['modules'] + [_m]
    PROPS[_p]['stubs'] = list(PROPS[_p].get('stubs', [])) + [EXEC_NOTE]
    PROPS[_p]['files'] = list(PROPS[_p]['files']) + ['pysmi/codegen/templates/pysnmp/mib-definitions.j2', 'pysmi/codegen/templates/pysnmp/base.j2', 'pysmi/codegen/pysnmp.py']

PROPS['C08']['modules'] = PROPS['C08']['modules'] + ['harness.c08_imports']
PROPS['C08']['files'] = list(PROPS['C08']['files']) + ['pysmi/codegen/symtable.py', 'pysmi/codegen/base.py', 'pysmi/parser/smi.py']
PROPS['C08']['functions'] = list(PROPS['C08']['functions']) + ['pysmi.codegen.symtable.SymtableCodeGen.genCode/genImports (MibInfo.imported)']

PROPS['C02']['modules'] = PROPS['C02']['modules'] + ['harness.c11_reject']
PROPS['C01']['bounds'] += '; table/row/column/SEQUENCE type in all 24 declaration orders'

PROPS['C20']['modules'] = PROPS['C20']['modules'] + ['harness.x20']
PROPS['C20']['files'] = list(PROPS['C20']['files']) + ['pysmi/compiler.py', 'pysmi/writer/localfile.py', 'pysmi/writer/pyfile.py', 'pysmi/reader/localfile.py', 'pysmi/reader/url.py']
PROPS['C20']['functions'] = list(PROPS['C20']['functions']) + ['scripts/mibdump.py and scripts/mibcopy.py as whole programs (runpy, in-process), engine EXEC']
PROPS['C20']['stubs'] = list(PROPS['C20']['stubs']) + ['EXEC conditions (C20.exec.*): no stubs - real option parsing, readers, parser, generators, writers on a real temporary directory; network borrowers replaced by an empty local directory; stand-in SNMPv2-SMI/-TC/-CONF source files']
PROPS['C20']['outside'] = ['process start (the scripts run in-process through runpy)', 'network sources and borrowers', 'module sets beyond two modules + base modules for the whole-tool conditions',
                           'mibcopy when shutil.copy fails', '--build-index, --cache-directory, --destination-template, searcher options of mibdump']
MANIFEST_TEXT['C20']['technique'] = ('CrossHair symbolic execution of statement fragments of the scripts with stubbed environment (unbounded symbolic revisions / statuses) '
                                     '+ whole-tool runs (runpy) executed concretely once per solver-explored shape of module set and options')
MANIFEST_TEXT['C20']['level_text'] = ('Kernel level: exit code and report lines for all status assignments of <=3 modules, option handling, mibcopy keeps the latest revision for every '
                                      'visiting order with unbounded revisions. Tool level (EXEC): for every shape of a two-module set (healthy / syntax error / semantic error / missing, '
                                      'imported and/or requested) x format x --dry-run/--no-mib-writes/--ignore-errors/--no-dependencies the real mibdump exit status, report and '
                                      'destination directory match the ground truth; mibcopy on real directories for every revision pair / visiting order / alias file name.')
MANIFEST_TEXT['C20']['level_note'] = 'Trusted: CrossHair/z3; fragment location is structural (a missing fragment is a harness error). Outside: network, process start, larger module sets.'

PROPS['C03']['modules'] = PROPS['C03']['modules'] + ['harness.x03']
PROPS['C03']['stubs'] = list(PROPS['C03'].get('stubs', [])) + ['EXEC conditions (C03.exec.*): the real jsondoc template is rendered and json.loads()-ed concretely on every solver-explored shape and compared with the captured context']
MANIFEST_TEXT['C03']['technique'] += '; real template rendered and decoded concretely per solver-explored shape (EXEC)'
for _p in ('C04', 'C05', 'C06', 'C15', 'C16'):
    MANIFEST_TEXT[_p]['technique'] += '; template/CPython/pysnmp layer executed concretely once per solver-explored shape (engine EXEC) and compared with the JSON document'
MANIFEST_TEXT['C04']['level_text'] = ('Context agreement and export closure solver-exhaustive within bounds; identifier paste-site safety by z3 regex theory; and - engine EXEC - '
                                      'for every solver-explored shape (ordered pairs of declaration kinds x syntax/access variants, import closure, type chains) the text rendered by the '
                                      'real template is compiled, loaded into a pysnmp MibBuilder and compared with the JSON document (export, kind, OID, access, base type, constraints, '
                                      'defaults, references). The template layer is decided by concrete execution per shape, not symbolically.')
MANIFEST_TEXT['C04']['level_note'] = 'Trusted: CrossHair/z3, Jinja2, CPython compile(), pysnmp as the judge of loadability. Outside: texts/numbers outside the pools, modules without IMPORTS.'
PROPS['C04']['outside'] = ['shapes, names, numbers and texts outside the stated pools (EXEC is exhaustive over shapes, concrete in values)', 'modules without any IMPORTS clause',
                           'hyphenated symbols imported between generated modules (known finding)']
PROPS['C04']['bounds'] = '2 declarations over 11 kinds (3 in the thorough tier); identifier witnesses of length <= 3 (unsat answers hold for every length)'

PROPS['C10']['files'] = list(PROPS['C10']['files']) + ['pysmi/searcher/pypackage.py']
PROPS['C10']['functions'] = list(PROPS['C10']['functions']) + ['pysmi.searcher.pypackage.PyPackageSearcher.fileExists (egg loader branch and package-directory branch)']
PROPS['C10']['stubs'] = list(PROPS['C10']['stubs']) + ['a fake package object in sys.modules (with a loader exposing a ZIP file table, or with __file__ inside the model file system); struct.unpack replaced in pysmi.searcher.pypackage']
PROPS['C10']['outside'] = ['real zipimport loaders (the egg branch runs on a fake loader; the .pyc header of the running interpreter is exercised by C10.exec.PyFileSearcher.real-pyc)', 'case folding of module names by PyPackageSearcher', 'real file systems']

PROPS['C14']['modules'] = PROPS['C14']['modules'] + ['harness.x14']
PROPS['C14']['stubs'] = list(PROPS['C14']['stubs']) + ['EXEC conditions (C14.exec.*): no stubs - the unmodified readers on real temporary directories and real nested ZIP files, once per solver-explored shape']
PROPS['C14']['outside'] = ['HTTP/FTP readers (their construction parameters are checked, their network behaviour is not)', 'file:// URLs that name a .zip (not pinned down by the documentation)',
                           'unreadable files on a real file system (the process runs as root; covered on the model only)']
MANIFEST_TEXT['C14']['technique'] += '; the same shapes on real directories / real ZIP files, concretely per solver-explored shape (EXEC)'

PROPS['C13']['modules'] = PROPS['C13']['modules'] + ['harness.hcompile']
PROPS['C13']['files'] = list(PROPS['C13']['files']) + ['pysmi/compiler.py']
PROPS['C13']['functions'] = list(PROPS['C13']['functions']) + ['pysmi.compiler.MibCompiler.compile (writeMibs / dryRun hand-over to the writer)']

PROPS['C04']['modules'] = PROPS['C04']['modules'] + ['harness.x15']
PROPS['C07']['modules'] = PROPS['C07']['modules'] + ['harness.c08_imports']          # "every module reachable through the IMPORTS ... has a status" starts with MibInfo.imported

# ---- MANIFEST texts after round 3 ------------------------------------------------------------------------------------------
MANIFEST_TEXT['C05']['level_text'] += (' pysnmp side (EXEC): for every solver-explored shape with values from pools, the generated module is loaded and its '
                                       'ranges / sizes (probed at every bound), named values, named bits and defaults are compared with the JSON document.')
MANIFEST_TEXT['C05']['level_note'] = 'Trusted: CrossHair/z3, PLY; for the EXEC conditions Jinja2, CPython and pysnmp as the judge. Outside: values outside the pools on the pysnmp side, chains longer than 3.'
MANIFEST_TEXT['C06']['level_text'] += (' pysnmp side (EXEC): node classes, setIndexNames, registerAugmentions and setObjects of the loaded module vs the JSON document '
                                       'for every solver-explored table / list / compliance shape.')
MANIFEST_TEXT['C06']['level_note'] = 'Trusted: CrossHair/z3, PLY; Jinja2/CPython/pysnmp for the EXEC conditions.'
MANIFEST_TEXT['C15']['level_text'] = ('JSON side solver-exhaustive within bounds for every text-bearing clause x genTexts x filter (one symbolic text per clause); per-call '
                                      'text filter does not leak between calls; pysnmp side: z3 regex-theory query per paste site (safe language derived from the site\'s filters) and - EXEC - '
                                      'every clause x 16 critical texts (apostrophes, line breaks, non-ASCII, template/format syntax, long words, hyphen chains, HTML-special characters, '
                                      'backslashes) executed and read back.')
MANIFEST_TEXT['C16']['level_text'] += ' pysnmp side (EXEC): both the SMIv1 module and its transliteration are generated with the real template, loaded and compared with their JSON documents.'
MANIFEST_TEXT['C10']['technique'] = ('CrossHair symbolic execution of MibCompiler.compile (z3) and of the four searchers over a model file system / fake package loader '
                                     '(unbounded symbolic times); real .pyc files for the header layout')
MANIFEST_TEXT['C10']['level_text'] += (' Searchers: AnyFile / PyFile / PyPackage (egg and directory branch) / Stub with unbounded symbolic modification times around equality, '
                                       'directories named like the module, distractor files, faults; PyFileSearcher additionally on genuine py_compile output.')
MANIFEST_TEXT['C13']['technique'] += '; real compile() for the writeMibs/dryRun hand-over; two real putData() threads under a symbolic schedule'
MANIFEST_TEXT['C13']['level_text'] += ' compile() hands nothing to the writer for real when writing is disabled or in dry-run mode (all option / outcome combinations of the 2-module shard).'
MANIFEST_TEXT['C12']['level_text'] += (' Also: results handed back for one module are not altered by processing the next (aliasing), two releases of the same module names, '
                                       'the same compiler object called twice (compile harness), all set iteration orders with forward references.')
MANIFEST_TEXT['C17']['level_text'] += ' Every relaxed p_* function agrees with the base function on every alternative both have (children from a pool incl. falsy values).'
MANIFEST_TEXT['C18']['level_text'] += ' Summary fields (identity / enterprise / compliance / oids) from the real parser + generators for identity-only / compliance-only modules, and the index built from them.'
MANIFEST_TEXT['C08']['level_text'] += ' MibInfo.imported of the real symbol-table builder names every module of the IMPORTS clause and the SMIv2 homes, for all 248 entries of the import map.'

for _p in ('C07', 'C09'):
    PROPS[_p]['modules'] = PROPS[_p]['modules'] + ['harness.x07']
    PROPS[_p]['stubs'] = list(PROPS[_p]['stubs']) + ['EXEC conditions (*.exec.real-compile.*): NO scripted components - the real MibCompiler with CallbackReader, the real parser, SymtableCodeGen, JsonCodeGen / PySnmpCodeGen (real templates) and CallbackWriter, once per solver-explored shape of a three-module set']
    MANIFEST_TEXT[_p]['technique'] += '; the real components plugged in, executed concretely per solver-explored shape (EXEC)'
