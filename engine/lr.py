"""Engine LR: Horn-clause (Datalog) simulation between the REAL LALR tables of two pysmi dialect parsers.

For dialects A (smaller) and B (larger): Reach(0,0); Reach(a',b') <- Reach(a,b), step_A(a,X,a'), step_B(b,X,b') for every
grammar symbol X; Bad <- Reach(a,b) and an action of A in state a on terminal t that B's state b does not mirror
(shift vs shift, accept vs accept, reduce by the production with the same head and right-hand side).
All relations are facts dumped from the tables PLY built from the p_* docstrings at import time; the solver (z3
Fixedpoint, engine=datalog) derives the reachable pairs and the incompatibilities. Bad unreachable => every token
sequence accepted by A is accepted by B with the same reduction sequence, for inputs of ANY length.
"""
import time

import z3

BITS = 12


def tables(options):
    from pysmi.parser.smi import parserFactory
    p = parserFactory(**options)()
    return p, p.parser


def prod_key(T, x):
    p = T.productions[-x]
    return (p.name, tuple(p.prod))


def simulate(A, B, timeout_ms=300000):
    """returns dict(verdict 'unsat'|'sat'|'unknown', seconds, facts, ...)"""
    t0 = time.time()
    fp = z3.Fixedpoint()
    fp.set(engine='datalog')
    S = z3.BitVecSort(BITS)
    BOOL = z3.BoolSort()

    def rel(name, n):
        r = z3.Function(name, *([S] * n + [BOOL]))
        fp.register_relation(r)
        return r
    Reach = rel('Reach', 2)
    Bad = rel('Bad', 1)
    StepA, StepB = rel('StepA', 3), rel('StepB', 3)
    ShiftA, RedA, AccA = rel('ShiftA', 2), rel('RedA', 3), rel('AccA', 2)
    NoShiftB, NoRedB, NoAccB = rel('NoShiftB', 2), rel('NoRedB', 2), rel('NoAccB', 2)
    RedB = rel('RedB', 3)
    GotoA, NoGotoB = rel('GotoA', 2), rel('NoGotoB', 2)
    DiffProd = rel('DiffProd', 2)

    syms, prods = {}, {}

    def sid(x):
        return syms.setdefault(x, len(syms))

    def pid(k):
        return prods.setdefault(k, len(prods))

    def bv(n):
        return z3.BitVecVal(n, BITS)
    nfacts = 0
    termsA = set()
    for s, acts in A.action.items():
        for t, x in acts.items():
            termsA.add(t)
            if x > 0:
                fp.fact(StepA(bv(s), bv(sid(t)), bv(x)))
                fp.fact(ShiftA(bv(s), bv(sid(t))))
            elif x < 0:
                fp.fact(RedA(bv(s), bv(sid(t)), bv(pid(prod_key(A, x)))))
            else:
                fp.fact(AccA(bv(s), bv(sid(t))))
            nfacts += 1
    ntA = set()
    for s, g in A.goto.items():
        for n, x in g.items():
            ntA.add(n)
            fp.fact(StepA(bv(s), bv(sid(n)), bv(x)))
            fp.fact(GotoA(bv(s), bv(sid(n))))
            nfacts += 2
    statesB = set(B.action.keys()) | set(B.goto.keys())
    for s in statesB:
        acts = B.action.get(s, {})
        for t in termsA:
            y = acts.get(t)
            if y is not None and y > 0:
                fp.fact(StepB(bv(s), bv(sid(t)), bv(y)))
            else:
                fp.fact(NoShiftB(bv(s), bv(sid(t))))
            if y is not None and y < 0:
                fp.fact(RedB(bv(s), bv(sid(t)), bv(pid(prod_key(B, y)))))
            else:
                fp.fact(NoRedB(bv(s), bv(sid(t))))
            if y != 0:
                fp.fact(NoAccB(bv(s), bv(sid(t))))
            nfacts += 3
        g = B.goto.get(s, {})
        for n in ntA:
            y = g.get(n)
            if y is not None:
                fp.fact(StepB(bv(s), bv(sid(n)), bv(y)))
            else:
                fp.fact(NoGotoB(bv(s), bv(sid(n))))
            nfacts += 1
    # inequality of production ids as facts over the productions that occur (keeps the rules purely relational)
    ids = sorted(set(prods.values()))
    usedA = set(pid(prod_key(A, x)) for acts in A.action.values() for x in acts.values() if x < 0)
    usedB = set(pid(prod_key(B, y)) for acts in B.action.values() for y in acts.values() if y < 0)
    for p in usedA:
        for q in usedB:
            if p != q:
                fp.fact(DiffProd(bv(p), bv(q)))
                nfacts += 1
    a, b, x, a2, b2, t, p, q = z3.BitVecs('a b x a2 b2 t p q', BITS)
    fp.declare_var(a, b, x, a2, b2, t, p, q)
    fp.fact(Reach(bv(0), bv(0)))
    fp.rule(Reach(a2, b2), [Reach(a, b), StepA(a, x, a2), StepB(b, x, b2)])
    fp.rule(Bad(bv(1)), [Reach(a, b), ShiftA(a, t), NoShiftB(b, t)])
    fp.rule(Bad(bv(2)), [Reach(a, b), RedA(a, t, p), NoRedB(b, t)])
    fp.rule(Bad(bv(3)), [Reach(a, b), RedA(a, t, p), RedB(b, t, q), DiffProd(p, q)])
    fp.rule(Bad(bv(4)), [Reach(a, b), AccA(a, t), NoAccB(b, t)])
    fp.rule(Bad(bv(5)), [Reach(a, b), GotoA(a, x), NoGotoB(b, x)])
    fp.set('timeout', timeout_ms)
    kinds = []
    verdict = 'unsat'
    for k in range(1, 6):
        r = fp.query(Bad(bv(k)))
        rs = str(r)
        if rs == 'sat':
            kinds.append(k)
            verdict = 'sat'
        elif rs != 'unsat' and verdict != 'sat':
            verdict = 'unknown'
    return dict(verdict=verdict, kinds=kinds, seconds=round(time.time() - t0, 2), facts=nfacts,
                statesA=len(A.action), statesB=len(statesB), queries=5)


# ---- witness reconstruction (only when the solver says Bad is reachable) ------------------------------------------

def shortest_expansions(T):
    """nonterminal -> shortest terminal string (list of terminal names)"""
    best = {}
    changed = True
    terms = set()
    for acts in T.action.values():
        terms.update(acts.keys())
    while changed:
        changed = False
        for p in T.productions[1:]:
            total = []
            ok = True
            for s in p.prod:
                if s in terms:
                    total.append(s)
                elif s in best:
                    total.extend(best[s])
                else:
                    ok = False
                    break
            if ok and (p.name not in best or len(total) < len(best[p.name])):
                best[p.name] = total
                changed = True
    return best


def find_witness(A, B):
    """BFS over the product automaton (Python) for a path to an incompatible pair; returns (terminal prefix, terminal)"""
    from collections import deque
    seen = {(0, 0): None}
    work = deque([(0, 0)])
    exp = shortest_expansions(A)

    def path(pair):
        syms = []
        while seen[pair] is not None:
            prev, X = seen[pair]
            syms.append(X)
            pair = prev
        syms.reverse()
        out = []
        for X in syms:
            out.extend(exp.get(X, [X]) if X in exp else [X])
        return out
    while work:
        a, b = work.popleft()
        for t, x in A.action.get(a, {}).items():
            y = B.action.get(b, {}).get(t)
            if x > 0:
                if y is None or y <= 0:
                    return path((a, b)), t, 'A shifts, B does not'
                nxt = (x, y)
                if nxt not in seen:
                    seen[nxt] = ((a, b), t)
                    work.append(nxt)
            elif x < 0:
                if y is None or y >= 0 or prod_key(B, y) != prod_key(A, x):
                    return path((a, b)), t, 'A reduces by %s, B does not' % (prod_key(A, x),)
            else:
                if y != 0:
                    return path((a, b)), t, 'A accepts, B does not'
        for n, x in A.goto.get(a, {}).items():
            y = B.goto.get(b, {}).get(n)
            if y is None:
                continue
            nxt = (x, y)
            if nxt not in seen:
                seen[nxt] = ((a, b), n)
                work.append(nxt)
    return None
